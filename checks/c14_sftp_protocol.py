"""C14 -- each SFTP request gets exactly one matching, well-typed reply."""

import asyncio
import errno
import stat as stat_mod

import asyncssh

from simkit.sftpstub import StubSftpServer, MemFS, RawSftp, attrs_v3
from simkit import sftpstub as W
from simkit.sshwire import Reader, Short, string, u32, u64
from simkit.world import World, RecClient, RecServer, client_opts, \
    server_opts

ID = 'C14'
NAME = 'sftp_protocol'
QUICK_S = 45
THOROUGH_S = 900
CHUNK = 40

RULE = ('client population: a real SFTP client issues k (2..12) concurrent '
        'requests with unique arguments (stat/read of files whose size and '
        'content identify them, realpath) against the adversarial responder, '
        'which releases replies in scheduler-chosen order and may answer one '
        'request with an unknown id, twice, or with a wrong reply type; each '
        'caller must get the reply to its own request or an SFTPError, none '
        'may hang. server population: a scripted raw requester pipelines '
        'drawn requests to a real SFTPServerHandler (versions 3..6) backed by '
        'an in-memory SFTPServer subclass that raises chosen OSErrors: every '
        'request type, valid, truncated at a drawn byte, extended, with '
        'unsupported type numbers and unknown extended names, followed by a '
        'sentinel stat; exactly one response per request id, of a type legal '
        'for the request, errno mapped to the status code the SFTP version '
        'defines, and the sentinel answered correctly; READ requests of '
        'drawn lengths (0 .. 2^32-1) through a handle opened for them: the '
        'file\'s bytes come back and the application is never asked for '
        'more than the maximum read length the server announces; extension '
        'pairs (well-formed, empty, cut, junk) in FXP_INIT: the session may '
        'be refused, the connection then serves another one and no internal '
        'error ends it. The client population gets the same pairs in '
        'FXP_VERSION: start_sftp_client() works or raises an SFTPError. '
        'attrs population: a '
        'real client and the real server handler at each version 3..6 '
        'exchange drawn attribute sets via stat/listdir; fields the version '
        'can carry must arrive unchanged. Non-trivial = at least 2 requests; '
        'distinct = (plan, schedule, trace) signature.')

ASSUMPTIONS = [
    'simulated event loop admits exactly asyncio-legal executions',
    'the errno -> status table is the one implied by the SFTP drafts '
    '(status codes defined per protocol version), stated in the check',
    'owner/group <-> uid/gid translation, ACLs and extended attributes are '
    'not part of the attribute round-trip oracle',
]

REAL = ['asyncssh SFTPClientHandler/SFTPClient (client, attrs populations); '
        'SFTPServerHandler + SFTPAttrs/SFTPName codecs (server, attrs '
        'populations); SSH transport']
STUB = ['event loop + clock', 'TCP', 'executor', 'adversarial SFTP responder',
        'raw SFTP requester', 'in-memory SFTPServer subclass']
PROBES = ['pop_client', 'pop_server', 'pop_attrs', 'replies_reordered',
          'bad_reply_unknown_id', 'bad_reply_dup_id', 'bad_reply_wrong_type',
          'bad_reply_short_body', 'bad_reply_extra_body',
          'malformed_request', 'unsupported_request', 'errno_mapped',
          'v3', 'v4', 'v5', 'v6', 'realpath_without_control_byte',
          'init_below_v3', 'time_before_1970', 'read_length_drawn',
          'init_with_extensions', 'init_refused', 'version_with_extensions']

ERRNOS = ['ENOENT', 'EACCES', 'EEXIST', 'EROFS', 'ENOSPC', 'EDQUOT',
          'ENOTEMPTY', 'ENOTDIR', 'ENAMETOOLONG', 'ELOOP', 'EINVAL',
          'EISDIR', 'EIO', 'EPERM']
BASE_CODE = {'ENOENT': 2, 'EACCES': 3, 'EEXIST': 11, 'EROFS': 12,
             'ENOSPC': 14, 'EDQUOT': 15, 'ENOTEMPTY': 18, 'ENOTDIR': 19,
             'ENAMETOOLONG': 20, 'ELOOP': 21, 'EINVAL': 23, 'EISDIR': 24}


def expected_status(name, ver):
    c = BASE_CODE.get(name, 4)

    if c == 19 and ver < 6:
        return 2

    if (c > 8 and ver <= 3) or (c > 13 and ver <= 4) or (c > 17 and ver <= 5):
        return 4

    return c


REQ_KINDS = ['stat', 'lstat', 'open', 'opendir', 'realpath', 'mkdir',
             'remove', 'rmdir', 'rename', 'readlink', 'setstat', 'read_bad',
             'close_bad', 'fstat_bad', 'ext_unknown', 'type_unknown',
             'statvfs', 'limits', 'realpath_bare', 'read_len']
READ_LENS = [0, 1, 6, 4 << 20, (4 << 20) + 1, 1 << 31, (1 << 32) - 1]
LEGAL = {'stat': {W.ATTRS}, 'lstat': {W.ATTRS}, 'open': {W.HANDLE},
         'opendir': {W.HANDLE}, 'realpath': {W.NAME}, 'readlink': {W.NAME},
         'realpath_bare': {W.NAME},
         'read_bad': {W.DATA}, 'read_len': {W.DATA},
         'fstat_bad': {W.ATTRS},
         'statvfs': {W.EXTENDED_REPLY}, 'limits': {W.EXTENDED_REPLY}}


EXT_NAMES = ['vendor-id', 'supported', 'supported2', 'acl-supported',
             'x@example.com']
EXT_HOWS = ['good', 'good', 'empty', 'short', 'junk']


def ext_data(name, how):
    """Data of a well-known extension pair in INIT / VERSION"""

    u16 = lambda v: v.to_bytes(2, 'big')
    good = {
        'vendor-id': string(b'vendor') + string(b'product') +
        string(b'1.0') + u64(7),
        'supported': u32(1) * 5 + string(b'a@b'),
        'supported2': u32(1) * 5 + u16(0) + u16(0) + u32(1) +
        string(b'attr@b') + u32(1) + string(b'a@b'),
        'acl-supported': u32(0),
        'x@example.com': b'1',
    }[name]

    if how == 'good':
        return good
    if how == 'empty':
        return b''
    if how == 'short':
        return good[:len(good) // 2]

    return b'\xff' * 7


def gen_ext(rng):
    return [[rng.choice(EXT_NAMES), rng.choice(EXT_HOWS)]
            for _ in range(rng.between(1, 3))]


def ext_malformed(ext):
    return any(how != 'good' and name != 'x@example.com'
               for name, how in ext or [])


def ext_bytes(ext):
    return b''.join(string(name.encode()) + string(ext_data(name, how))
                    for name, how in ext or [])


def gen_plan(rng):
    pop = rng.weighted([('client', 40), ('server', 40), ('attrs', 20)])
    plan = {
        'drbg': rng.below(1 << 30),
        'profile': {'p_sched': rng.choice([0, 30, 70, 95]),
                    'p_chunk': rng.choice([10, 50]),
                    'latency_ms': rng.choice([0, 0, 2]), 'capacity': 0},
        'pop': pop, 'version': rng.choice([3, 4, 5, 6]),
    }

    if pop == 'client':
        plan['k'] = rng.between(2, 12)
        plan['ops'] = [rng.choice(['stat', 'stat', 'read', 'realpath',
                                   'statvfs'])
                       for _ in range(plan['k'])]
        plan['reorder'] = rng.chance(85)
        plan['bad'] = rng.weighted([(None, 50), ('unknown_id', 12),
                                    ('dup_id', 12), ('wrong_type', 12),
                                    ('short_body', 8), ('extra_body', 6)])
        plan['bad_at'] = rng.below(plan['k'] + 3)

        if rng.chance(15):
            # extension pairs in the server's VERSION
            plan['ext'] = gen_ext(rng)
    elif pop == 'server':
        reqs = []

        for _ in range(rng.between(1, 10)):
            reqs.append({
                'kind': rng.choice(REQ_KINDS),
                'shape': rng.weighted([('valid', 5), ('truncate', 3),
                                       ('extend', 2)]),
                'cut': rng.below(1 << 16),
                'path': rng.choice(['f1', 'f2', 'dir', 'missing', 'e:ENOENT',
                                    'e:EACCES'] +
                                   ['e:' + e for e in ERRNOS]),
            })

        for q in reqs:
            if q['kind'] == 'read_len':
                # a read of a drawn length through a handle opened for it
                q.update(shape='valid', path='f2', len=rng.choice(READ_LENS))

        plan['reqs'] = reqs
        plan['pipeline'] = rng.chance(60)

        if rng.chance(10):
            plan['init_ver'] = rng.choice([0, 1, 2])
            plan['version'] = 3
        elif rng.chance(15):
            # extension pairs in the client's INIT (version 3 carries them)
            plan['ext'] = gen_ext(rng)
            plan['init_ver'] = plan['version'] = 3
    else:
        fields = {}

        for name, vals in (('size', [0, 1, 1 << 40]),
                           ('permissions', [0o100644, 0o040755, 0o120777]),
                           # (a time before 1970: the v4+ fields are signed;
                           # v3 cannot carry it, but must not fail on it)
                           ('atime', [0, 1, 1 << 31, -86400] +
                            ([1 << 33] if plan['version'] > 3 else [])),
                           ('mtime', [0, 5, (1 << 32) - 1, -1] +
                            ([1 << 32] if plan['version'] > 3 else [])),
                           ('atime_ns', [0, 999999999]),
                           ('mtime_ns', [1, 123456789]),
                           ('crtime', [7, 1 << 34]),
                           ('crtime_ns', [0, 5]),
                           ('ctime', [9]), ('ctime_ns', [11]),
                           ('nlink', [1, 7]),
                           ('alloc_size', [4096]),
                           ('attrib_bits', [0, 5]),
                           ('mime_type', ['text/plain'])):
            if rng.chance(55):
                fields[name] = rng.choice(vals)

        plan['fields'] = fields
        plan['ftype'] = rng.choice([1, 2, 3, 5])

    return plan


def valid_plan(plan):
    try:
        for ent in plan.get('ext') or []:
            if len(ent) != 2 or ent[0] not in EXT_NAMES or \
                    ent[1] not in EXT_HOWS:
                return False

        if plan.get('ext') is not None and \
                (not plan['ext'] or plan['pop'] == 'attrs' or
                 (plan['pop'] == 'server' and plan.get('init_ver') != 3)):
            return False

        if plan['pop'] not in ('client', 'server', 'attrs') or \
                plan['version'] not in (3, 4, 5, 6):
            return False

        if plan['pop'] == 'client':
            return len(plan['ops']) == plan['k'] >= 1 and \
                all(o in ('stat', 'read', 'realpath', 'statvfs')
                    for o in plan['ops'])

        if plan['pop'] == 'attrs' and plan['version'] == 3 and \
                any(plan['fields'].get(f, 0) > 0xffffffff
                    for f in ('atime', 'mtime')):
            return False

        if 'init_ver' in plan and (plan['pop'] != 'server' or
                                   plan['init_ver'] not in
                                   ((3,) if plan.get('ext') else (0, 1, 2))
                                   or plan['version'] != 3):
            return False

        if plan['pop'] == 'server':
            return all(r['kind'] in REQ_KINDS and
                       r['shape'] in ('valid', 'truncate', 'extend') and
                       (r['kind'] != 'read_len' or
                        (r['shape'] == 'valid' and r['path'] == 'f2' and
                         0 <= r['len'] < 1 << 32))
                       for r in plan['reqs'])

        return isinstance(plan['fields'], dict)
    except (KeyError, TypeError):
        return False


# -- client population ------------------------------------------------------------------

def run_client(world, plan):
    sim = world.sim
    fs = MemFS()
    k = plan['k']

    for i in range(k):
        fs.files[b'/file%d' % i] = bytearray(b'content-of-%d|' % i * (i + 1))

    policy = {'reorder': plan['reorder'],
              'extensions': [(b'statvfs@openssh.com', b'2')] +
              [(name.encode(), ext_data(name, how))
               for name, how in plan.get('ext') or []]}

    if plan.get('ext'):
        sim.probes['version_with_extensions'] += 1

    if plan['bad']:
        policy['bad_reply'] = (plan['bad'], plan['bad_at'] + 1)

    stub = {}
    res = {'results': [None] * k, 'started': False}

    class StubSession(asyncssh.SSHServerSession):
        def connection_made(self, chan):
            self.stub = StubSftpServer(sim, fs, policy)
            self.stub.writer = chan
            stub['s'] = self.stub

        def subsystem_requested(self, subsystem):
            return subsystem == 'sftp'

        def data_received(self, data, datatype):
            self.stub.feed(data)

    class Srv(RecServer):
        def session_requested(self):
            return StubSession()

    async def one(sftp, i, op):
        try:
            if op == 'stat':
                a = await sftp.stat('file%d' % i)
                return ('size', a.size)
            elif op == 'statvfs':
                v = await sftp.statvfs('file%d' % i)
                return ('vfs', v.files)
            elif op == 'read':
                async with sftp.open('file%d' % i, 'rb') as f:
                    return ('data', await f.read())
            else:
                return ('path', await sftp.realpath('x/../file%d' % i))
        except (asyncssh.Error, OSError) as exc:
            return ('error', exc)
        except Exception as exc: # pylint: disable=broad-except
            return ('crash', exc)

    async def main():
        acc = await asyncssh.listen('127.0.0.1', 22,
                                    server_factory=lambda: Srv(world),
                                    **server_opts(encoding=None))
        conn = await asyncssh.connect('127.0.0.1', 22, **client_opts())

        try:
            sftp = await conn.start_sftp_client()
            res['started'] = True
            tasks = [sim.track('req%d' % i, one(sftp, i, op))
                     for i, op in enumerate(plan['ops'])]
            res['tasks'] = tasks
            done = await asyncio.gather(*tasks)
            res['results'] = done
        except (asyncssh.Error, OSError) as exc:
            res['start_error'] = exc
        except Exception as exc: # pylint: disable=broad-except
            res['start_crash'] = exc

        await world.gate('done')
        conn.close()
        await conn.wait_closed()
        acc.close()
        await acc.wait_closed()

    world.start(main())
    world.run_phase()
    s = stub.get('s')
    bad_hit = bool(s and s.bad_replies)

    if 'start_crash' in res:
        world.violation(
            'undocumented-exception', 'start_sftp_client() raised %r '
            'instead of an SFTPError (extensions in VERSION: %r)' %
            (res['start_crash'], plan.get('ext')),
            sig='start:' + type(res['start_crash']).__name__)
    elif 'start_error' in res and not ext_malformed(plan.get('ext')):
        world.violation('spurious-error', 'start_sftp_client() failed '
                        'although the VERSION reply is well-formed: %r '
                        '(extensions %r)' % (res['start_error'],
                                             plan.get('ext')), sig='start')

    if not sim.loop.capped:
        pending = [t.sim_name for t in res.get('tasks', []) if not t.done()]

        if pending:
            world.violation('hang', 'SFTP callers never completed: %r (bad '
                            'reply %r hit=%s)' % (pending, plan['bad'],
                                                  bad_hit),
                            sig=str(plan['bad']))

    for i, (op, r) in enumerate(zip(plan['ops'], res['results'])):
        if r is None:
            continue

        kind, val = r
        data = bytes(fs.files[b'/file%d' % i])

        if kind == 'crash':
            world.violation('undocumented-exception', 'request %d (%s) '
                            'raised %r instead of an SFTPError' %
                            (i, op, val), sig=type(val).__name__)
            continue

        if kind == 'error':
            if not bad_hit:
                world.violation('spurious-error', 'request %d (%s) failed '
                                'without any bad reply: %r' % (i, op, val))

            continue

        ok = (kind == 'size' and val == len(data)) or \
            (kind == 'data' and val == data) or \
            (kind == 'path' and val == '/file%d' % i) or \
            (kind == 'vfs' and val == len('/file%d' % i) * 1000 + 7)

        if not ok:
            world.violation(
                'wrong-reply-delivered',
                'caller %d (%s file%d) received %r, which answers another '
                'request (k=%d, reorder=%s, bad=%r)' %
                (i, op, i, val if kind != 'data' else val[:30], plan['k'],
                 plan['reorder'], plan['bad']), sig=op)

    if s is not None:
        sim.probes['replies_reordered'] += s.reordered

        if bad_hit:
            sim.probes['bad_reply_' + plan['bad']] += 1

    world.open_gate('done')
    world.run_phase()
    return {'k': k, 'ops': plan['ops'], 'bad': plan['bad'],
            'reordered': s.reordered if s else 0,
            'results': [r[0] if r else None for r in res['results']]}


# -- in-memory SFTPServer -----------------------------------------------------------------

class MemServer(asyncssh.SFTPServer):
    FILES = {b'/f1': b'one', b'/f2': b'twotwo'}

    def __init__(self, chan, plan):
        super().__init__(chan)
        self.plan = plan
        self.max_read = 0

    def _check(self, path):
        if b'e:' in path:
            name = path.split(b'e:')[-1].decode()
            raise OSError(getattr(errno, name), 'injected ' + name)

    def _attrs(self, path):
        self._check(path)
        p = b'/' + path.lstrip(b'/')

        if self.plan.get('fields') is not None and p == b'/attrfile':
            f = dict(self.plan['fields'])

            if 'attrib_bits' in f:
                f['attrib_valid'] = 0x7ff

            return asyncssh.SFTPAttrs(type=self.plan['ftype'], **f)

        if p in self.FILES:
            return asyncssh.SFTPAttrs(type=1, size=len(self.FILES[p]),
                                      permissions=0o100644, atime=1, mtime=2)

        if p in (b'/dir', b'/'):
            return asyncssh.SFTPAttrs(type=2, size=0, permissions=0o040755,
                                      atime=1, mtime=2)

        raise OSError(errno.ENOENT, 'no such file')

    def stat(self, path):
        return self._attrs(path)

    def lstat(self, path):
        return self._attrs(path)

    def fstat(self, file_obj):
        return self._attrs(file_obj)

    def open(self, path, pflags, attrs):
        self._attrs(path)
        return b'/' + path.lstrip(b'/')

    def open56(self, path, desired_access, flags, attrs):
        self._attrs(path)
        return b'/' + path.lstrip(b'/')

    def close(self, file_obj):
        return None

    def read(self, file_obj, offset, size):
        self.max_read = max(self.max_read, size)
        return self.FILES.get(file_obj, b'')[offset:offset + size]

    def write(self, file_obj, offset, data):
        return len(data)

    async def scandir(self, path):
        self._attrs(path)

        for name in (b'attrfile', b'f1'):
            yield asyncssh.SFTPName(name, attrs=self._attrs(b'/' + name))

    def realpath(self, path):
        self._check(path)
        return b'/' + path.lstrip(b'/')

    def mkdir(self, path, attrs):
        self._check(path)

    def remove(self, path):
        self._check(path)
        self._attrs(path)

    def rmdir(self, path):
        self._check(path)

    def rename(self, oldpath, newpath):
        self._check(oldpath)
        self._check(newpath)

    def readlink(self, path):
        self._check(path)
        return b'/target'

    def setstat(self, path, attrs):
        self._check(path)

    def statvfs(self, path):
        self._check(path)
        return asyncssh.SFTPVFSAttrs(bsize=1, frsize=1, blocks=1, bfree=1,
                                     bavail=1, files=1, ffree=1, favail=1,
                                     fsid=1, flags=0, namemax=255)


def build_request(kind, path, ver):
    """(type, body, sentinel-able) for a drawn request kind"""

    p = string(path)
    flags4 = u32(0) if ver >= 4 else b''
    empty_attrs = attrs_v3() if ver == 3 else u32(0) + bytes([1])

    if kind == 'stat':
        return W.STAT, p + flags4
    if kind == 'lstat':
        return W.LSTAT, p + flags4
    if kind == 'open':
        if ver >= 5:
            return W.OPEN, p + u32(0x81) + u32(2) + empty_attrs
        return W.OPEN, p + u32(W.FXF_READ) + empty_attrs
    if kind == 'opendir':
        return W.OPENDIR, p
    if kind == 'realpath':
        # v6: control byte (SSH_FXP_REALPATH_NO_CHECK)
        return W.REALPATH, p + (bytes([1]) if ver >= 6 else b'')
    if kind == 'realpath_bare':
        # v6: the control byte (and the compose paths) are optional;
        # without it NO_CHECK is assumed (draft 13, 8.9)
        return W.REALPATH, p
    if kind == 'mkdir':
        return W.MKDIR, p + empty_attrs
    if kind == 'remove':
        return W.REMOVE, p
    if kind == 'rmdir':
        return W.RMDIR, p
    if kind == 'rename':
        return W.RENAME, p + string(b'newname') + (u32(0) if ver >= 5
                                                    else b'')
    if kind == 'readlink':
        return W.READLINK, p
    if kind == 'setstat':
        return W.SETSTAT, p + empty_attrs
    if kind == 'read_bad':
        return W.READ, string(b'nohandle') + u64(0) + u32(10)
    if kind == 'close_bad':
        return W.CLOSE, string(b'nohandle')
    if kind == 'fstat_bad':
        return W.FSTAT, string(b'nohandle') + flags4
    if kind == 'ext_unknown':
        return W.EXTENDED, string(b'no-such-extension@example.com') + p
    if kind == 'statvfs':
        return W.EXTENDED, string(b'statvfs@openssh.com') + p
    if kind == 'limits':
        return W.EXTENDED, string(b'limits@openssh.com')

    return 77, p           # type_unknown


def run_server(world, plan):
    sim = world.sim
    ver = plan['version']
    res = {'replies': {}, 'order': [], 'error': None, 'sent': [],
           'srv': None}

    def sftp_factory(chan):
        res['srv'] = MemServer(chan, {'fields': None})
        return res['srv']

    async def main():
        acc = await asyncssh.listen(
            '127.0.0.1', 22, server_factory=lambda: RecServer(world),
            sftp_factory=sftp_factory,
            sftp_version=ver, **server_opts(encoding=None))
        conn = await asyncssh.connect('127.0.0.1', 22, **client_opts())
        w, r, _ = await conn.open_session(subsystem='sftp', encoding=None)
        raw = RawSftp(w, r)

        try:
            if plan.get('ext'):
                sim.probes['init_with_extensions'] += 1

            try:
                got_ver, _ = await raw.init(plan.get('init_ver', ver),
                                            ext_bytes(plan.get('ext')))
            except (EOFError, asyncio.IncompleteReadError) as exc:
                if not ext_malformed(plan.get('ext')):
                    raise

                # a malformed INIT ends this SFTP session -- and nothing
                # else: the connection serves another one
                res['init_refused'] = True
                sim.probes['init_refused'] += 1

                try:
                    w, r, _ = await conn.open_session(subsystem='sftp',
                                                      encoding=None)
                    raw = RawSftp(w, r)
                    got_ver, _ = await raw.init(3)
                except (asyncssh.Error, OSError, EOFError,
                        asyncio.IncompleteReadError) as exc2:
                    world.violation(
                        'connection-ended-by-malformed-init',
                        'after an FXP_INIT with extension pairs %r the '
                        'connection does not serve another SFTP session: '
                        '%r' % (plan['ext'], exc2), sig='init_ext')
                    return

            res['version'] = got_ver
            rid = 100

            if 'init_ver' in plan and not plan.get('ext'):
                # the client asked for a version older than any that is
                # implemented: what the server says it will speak has to be
                # one it does speak
                sim.probes['init_below_v3'] += 1

                if not 3 <= got_ver <= 6:
                    world.violation(
                        'unimplemented-version-agreed',
                        'FXP_INIT %d answered with FXP_VERSION %d' %
                        (plan['init_ver'], got_ver), sig='init')
                    return

            async def read_reply():
                p = await raw.recv()
                rr = Reader(p, 1)
                i = rr.u32()
                res['replies'].setdefault(i, []).append(p)
                res['order'].append(i)

            for q in plan['reqs'] + [{'kind': 'stat', 'shape': 'valid',
                                      'cut': 0, 'path': 'f2',
                                      'sentinel': True}]:
                if q['kind'] == 'read_len':
                    # open the file first; the handle is in the reply
                    t, body = build_request('open', b'f2', ver)
                    rid += 1
                    res['sent'].append((rid, {'kind': 'open', 'path': 'f2',
                                              'shape': 'valid'}, t))
                    raw.send(bytes([t]) + u32(rid) + body)

                    while rid not in res['replies']:
                        await read_reply()

                    rep = res['replies'][rid][0]

                    if rep[0] != W.HANDLE:
                        continue

                    t, body = W.READ, string(Reader(rep, 5).string()) + \
                        u64(0) + u32(q['len'])
                    sim.probes['read_length_drawn'] += 1
                else:
                    t, body = build_request(q['kind'], q['path'].encode(),
                                            ver)

                shape = q['shape']

                if shape == 'truncate' and body:
                    body = body[:q['cut'] % len(body)]
                    sim.probes['malformed_request'] += 1
                elif shape == 'extend':
                    body = body + b'\x00\x01'
                    sim.probes['malformed_request'] += 1

                rid += 1
                res['sent'].append((rid, q, t))
                raw.send(bytes([t]) + u32(rid) + body)

                if not plan['pipeline']:
                    await read_reply()

            while len(res['order']) < len(res['sent']):
                await read_reply()
        except (asyncssh.Error, OSError, EOFError, Short,
                asyncio.IncompleteReadError) as exc:
            res['error'] = exc

        await world.gate('done')
        conn.close()
        await conn.wait_closed()
        acc.close()
        await acc.wait_closed()

    world.start(main())
    world.run_phase()
    sim.probes['v%d' % ver] += 1

    for rid, q, t in res['sent']:
        reps = res['replies'].get(rid, [])
        kind, shape = q['kind'], q['shape']

        if len(reps) != 1:
            world.violation(
                'reply-count', 'request id %d (%s %s %r, v%d) got %d '
                'responses (session error: %r)' %
                (rid, kind, shape, q['path'], ver, len(reps), res['error']),
                sig='%s:%s' % (kind if len(reps) else 'session-ended',
                               shape))
            break

        p = reps[0]
        rtype = p[0]
        legal = {W.STATUS} | LEGAL.get(kind, set())

        if rtype not in legal:
            world.violation('reply-type', 'request %s got reply type %d' %
                            (kind, rtype), sig=kind)
            continue

        code = Reader(p, 5).u32() if rtype == W.STATUS else None

        if kind in ('ext_unknown', 'type_unknown') and \
                (shape != 'truncate' or kind == 'type_unknown'):
            sim.probes['unsupported_request'] += 1

            if code != 8:
                world.violation('unsupported-not-reported',
                                '%s answered with %r, expected '
                                'FX_OP_UNSUPPORTED' % (kind, code), sig=kind)
        elif shape == 'valid' and q['path'].startswith('e:') and \
                kind in ('stat', 'lstat', 'open', 'realpath',
                         'mkdir', 'remove', 'rmdir', 'rename', 'readlink',
                         'setstat', 'statvfs'):
            want = expected_status(q['path'][2:], ver)
            sim.probes['errno_mapped'] += 1

            if code != want:
                world.violation(
                    'errno-mapping', '%s raising %s at SFTP v%d answered '
                    'with status %r, expected %d' %
                    (kind, q['path'][2:], ver, code, want),
                    sig=q['path'][2:])
        elif kind == 'realpath_bare' and shape == 'valid' and \
                not q['path'].startswith('e:'):
            sim.probes['realpath_without_control_byte'] += 1

            if rtype != W.NAME:
                world.violation(
                    'legal-request-refused', 'REALPATH with just a path '
                    '(legal at every version, v%d here) answered with '
                    'status %r instead of a name' % (ver, code),
                    sig='realpath')
        elif kind == 'read_len':
            data = Reader(p, 5).string() if rtype == W.DATA else None
            want = b'twotwo'[:q['len']]

            # (a read of no bytes may be answered with EOF or empty data)
            if data != want and not (not want and rtype == W.STATUS):
                world.violation(
                    'read-reply', 'READ of %d bytes at offset 0 of a 6-byte '
                    'file answered with %r (status %r), expected %r' %
                    (q['len'], data, code, want), sig='read_len')
        elif q.get('sentinel'):
            ok = False

            if rtype == W.ATTRS:
                rr = Reader(p, 5)
                flags = rr.u32()

                if ver >= 4:
                    rr.u8()

                ok = bool(flags & 1) and rr.u64() == 6

            if not ok:
                world.violation('session-not-continued', 'valid stat after '
                                'the drawn requests was not answered '
                                'correctly (reply type %d)' % rtype)
        elif shape != 'valid' and rtype != W.STATUS and shape == 'truncate':
            # a truncated body must not be served as if complete unless the
            # cut removed nothing the request needs (v6 tolerates extras)
            pass

    from asyncssh.sftp import MAX_SFTP_READ_LEN

    if res['srv'] is not None and res['srv'].max_read > MAX_SFTP_READ_LEN:
        # one request of 30 bytes must not make the server ask its storage
        # for (and buffer, and send as one reply) more than the maximum read
        # length it announces itself (limits@openssh.com, the v5 / v6
        # "supported" blocks)
        world.violation(
            'read-length-unbounded', 'a READ request made the server ask '
            'the application for %d bytes in one read(); the maximum read '
            'length it announces is %d' %
            (res['srv'].max_read, MAX_SFTP_READ_LEN), sig='read_len')

    world.open_gate('done')
    world.run_phase()
    return {'version': ver, 'reqs': plan['reqs'],
            'replies': {k: [p[0] for p in v]
                        for k, v in res['replies'].items()},
            'error': repr(res['error'])}


V_FIELDS = {
    3: ['size', 'permissions', 'atime', 'mtime'],
    4: ['size', 'permissions', 'atime', 'mtime', 'atime_ns', 'mtime_ns',
        'crtime', 'crtime_ns'],
    5: ['size', 'permissions', 'atime', 'mtime', 'atime_ns', 'mtime_ns',
        'crtime', 'crtime_ns', 'attrib_bits'],
    6: ['size', 'permissions', 'atime', 'mtime', 'atime_ns', 'mtime_ns',
        'crtime', 'crtime_ns', 'attrib_bits', 'ctime', 'ctime_ns', 'nlink',
        'alloc_size', 'mime_type'],
}


def run_attrs(world, plan):
    sim = world.sim
    ver = plan['version']
    res = {}

    async def main():
        acc = await asyncssh.listen(
            '127.0.0.1', 22, server_factory=lambda: RecServer(world),
            sftp_factory=lambda chan: MemServer(chan, plan),
            sftp_version=ver, **server_opts(encoding=None))
        conn = await asyncssh.connect('127.0.0.1', 22, **client_opts())

        try:
            sftp = await conn.start_sftp_client(sftp_version=ver)
            res['version'] = sftp.version
            res['stat'] = await sftp.stat('attrfile')
            res['names'] = await sftp.readdir('dir')
        except Exception as exc: # pylint: disable=broad-except
            res['error'] = exc

        await world.gate('done')
        conn.close()
        await conn.wait_closed()
        acc.close()
        await acc.wait_closed()

    world.start(main())
    world.run_phase()
    sim.probes['v%d' % ver] += 1

    if 'error' in res:
        world.violation('attrs-exchange-failed', 'stat/readdir failed at v%d '
                        'with fields %r: %r' % (ver, plan['fields'],
                                                res['error']))
    elif 'stat' in res:
        fields = dict(plan['fields'])
        views = [('stat', res['stat'])]

        for n in res.get('names', []):
            if n.filename in ('attrfile', b'attrfile'):
                views.append(('readdir', n.attrs))

        for where, got in views:
            for f in V_FIELDS[ver]:
                want = fields.get(f)

                # SFTPv3 has one flag for both times: they travel together
                if ver == 3 and f in ('atime', 'mtime') and \
                        (fields.get('atime') is None or
                         fields.get('mtime') is None):
                    want = None

                # sub-second parts travel only with their seconds field
                if f.endswith('_ns') and fields.get(f[:-3]) is None:
                    continue

                if f.endswith('_ns') and want is None:
                    want_cmp = (None, 0)
                else:
                    want_cmp = (want,)

                if f == 'attrib_bits' and want is not None:
                    # valid mask accompanies the bits; only bits compared
                    pass

                have = getattr(got, f, None)

                if ver == 3 and f in ('atime', 'mtime') and \
                        isinstance(want, int) and want < 0:
                    # not representable in 32 unsigned bits: any value the
                    # field can hold will do, as long as the exchange works
                    sim.probes['time_before_1970'] += 1
                    continue

                if f in ('atime', 'mtime') and isinstance(want, int) and \
                        want < 0:
                    sim.probes['time_before_1970'] += 1

                if f == 'permissions' and ver >= 4 and want is not None \
                        and have is not None:
                    # from v4 on the file type travels in its own field
                    want_cmp = (stat_mod.S_IMODE(want),)
                    have = stat_mod.S_IMODE(have)

                if have not in want_cmp:
                    world.violation(
                        'attr-mismatch',
                        'SFTP v%d %s: field %s sent as %r arrived as %r '
                        '(all fields sent: %r)' %
                        (ver, where, f, want, have, fields),
                        sig='%d:%s' % (ver, f))
                    break

            if ver >= 4 and got.type != plan['ftype']:
                world.violation('attr-mismatch', 'SFTP v%d %s: type sent %d '
                                'arrived %d' % (ver, where, plan['ftype'],
                                                got.type),
                                sig='%d:type' % ver)

    world.open_gate('done')
    world.run_phase()
    return {'version': ver, 'fields': plan['fields'],
            'negotiated': res.get('version')}


def run_plan(plan, sched_seed=None, sched_replay=None):
    world = World(plan, sched_seed, sched_replay)
    world.sim.probes['pop_' + plan['pop']] += 1

    if plan['pop'] == 'client':
        sample = run_client(world, plan)
    elif plan['pop'] == 'server':
        sample = run_server(world, plan)
    else:
        sample = run_attrs(world, plan)

    # (server population: the SSH layer of both ends behaves legally, only
    # the SFTP bodies are hostile -- an exception escaping inside the library
    # would take the whole connection down)
    world.check_loop_health(allow_hang=True, loop_errors=False,
                            internal_errors=plan['pop'] == 'server')
    return world.result(nontrivial=True, sample=sample)
