"""C07, layer 2/3 tunnel channels (tun@openssh.com): a channel whose unit of
transfer is a packet.  Each write() is one packet and must come out of the
other end as one packet with the same bytes, whatever window and maximum
packet size the receiver advertised and however it reads."""

import asyncio

import asyncssh

from simkit.world import World, RecServer, client_opts, server_opts
from .chanload import gen_bytes

WINDOWS = [40, 64, 200, 1000, 4096, 2097152]
PKTSIZES = [36, 64, 200, 1500, 32768]


def gen_side(rng, window, pktsize, mode):
    """Packets one side writes: every one fits the receiver's maximum packet
       size and window (with the 4-byte address family of layer 3 mode)"""

    hdr = 4 if mode == 'tun' else 0
    biggest = min(window, pktsize) - hdr
    pkts = []

    for _ in range(rng.weighted([(0, 1), (1, 2), (3, 3), (8, 3), (30, 1)])):
        n = rng.choice([1, 2, biggest, biggest - 1, max(1, biggest // 2),
                        rng.between(1, biggest)])
        pkts.append(max(1, min(n, biggest)))

    return {'pkts': pkts, 'eof': rng.chance(60),
            'gaps': [rng.below(3) for _ in pkts]}


def gen_plan(rng):
    mode = rng.choice(['tun', 'tap'])
    cw, cp = rng.choice(WINDOWS), rng.choice(PKTSIZES)
    sw, sp = rng.choice(WINDOWS), rng.choice(PKTSIZES)
    return {
        'drbg': rng.below(1 << 30),
        'profile': {'p_sched': rng.choice([0, 30, 70, 95]),
                    'p_chunk': rng.choice([10, 50, 90]),
                    'latency_ms': rng.choice([0, 0, 2]), 'capacity': 0},
        'pop': 'tuntap', 'mode': mode,
        # what each side advertises as a receiver
        'c_window': cw, 'c_pktsize': cp, 's_window': sw, 's_pktsize': sp,
        'reader_c': rng.choice(['cb', 'stream']),
        # client -> server packets are bounded by the server's limits
        'c2s': gen_side(rng, sw, sp, mode),
        's2c': gen_side(rng, cw, cp, mode),
        'pause_c': sorted(rng.sample(range(1, 30), rng.choice([0, 0, 2, 6]))),
        'pause_s': sorted(rng.sample(range(1, 30), rng.choice([0, 0, 2, 6]))),
    }


def valid_plan(plan):
    try:
        if plan['mode'] not in ('tun', 'tap') or \
                plan['reader_c'] not in ('cb', 'stream'):
            return False

        hdr = 4 if plan['mode'] == 'tun' else 0

        for side, w, p in (('c2s', 's_window', 's_pktsize'),
                           ('s2c', 'c_window', 'c_pktsize')):
            if plan[w] < 8 or plan[p] < 8:
                return False

            d = plan[side]

            if len(d['gaps']) != len(d['pkts']) or len(d['pkts']) > 60:
                return False

            if any(not 1 <= n <= min(plan[w], plan[p]) - hdr
                   for n in d['pkts']):
                return False

        return True
    except (KeyError, TypeError, IndexError):
        return False


def packet(tag, k, n, mode):
    data = bytearray(gen_bytes('%s.%d' % (tag, k), 0, n))

    if mode == 'tun':
        # an IP packet: the version nibble selects the address family
        data[0] = 0x45 if k % 2 == 0 else 0x60

    return bytes(data)


class TSess(asyncssh.SSHTunTapSession):
    """Callback session recording the packets it is given"""

    def __init__(self, world, name, pauses):
        self.world = world
        self.name = name
        self.pauses = list(pauses)
        self.chan = None
        self.pkts = []
        self.eof = False
        self.lost = 0
        self.after_eof = 0
        self.started = world.sim.loop.create_future()

    def connection_made(self, chan):
        self.chan = chan

    def session_started(self):
        if not self.started.done():
            self.started.set_result(None)

    def data_received(self, data, datatype):
        if self.eof:
            self.after_eof += 1

        self.pkts.append(bytes(data))

        if len(self.pkts) in self.pauses:
            self.world.sim.probes['reader_paused'] += 1
            self.chan.pause_reading()
            self.world.sim.track('resume-' + self.name, self.resume())

    async def resume(self):
        await self.world.sim.pause('rd:' + self.name)

        if self.chan is not None and not self.lost:
            self.chan.resume_reading()

    def eof_received(self):
        self.eof = True
        return True

    def connection_lost(self, exc):
        self.lost += 1

        if not self.started.done():
            self.started.set_result(None)


def run_plan(plan, sched_seed=None, sched_replay=None):
    world = World(plan, sched_seed, sched_replay)
    sim = world.sim
    mode = plan['mode']
    res = {'srv': None, 'cli': None, 'stream': None, 'exc': None,
           'write_exc': None}

    class Srv(RecServer):
        def _sess(self):
            res['srv'] = TSess(world, 's', plan['pause_s'])
            return res['srv']

        def tun_requested(self, unit):
            return self._sess()

        def tap_requested(self, unit):
            return self._sess()

    async def writer(chan, tag, side):
        for k, n in enumerate(side['pkts']):
            for _ in range(side['gaps'][k]):
                await sim.pause('wr:' + tag)

            try:
                chan.write(packet(tag, k, n, mode))
            except (asyncssh.Error, OSError) as exc:
                res['write_exc'] = exc
                return

        if side['eof']:
            chan.write_eof()

    async def main():
        acc = await asyncssh.listen(
            '127.0.0.1', 22, server_factory=lambda: Srv(world),
            **server_opts(window=plan['s_window'],
                          max_pktsize=plan['s_pktsize']))
        conn = await asyncssh.connect('127.0.0.1', 22, **client_opts())
        kw = dict(window=plan['c_window'], max_pktsize=plan['c_pktsize'])

        try:
            if plan['reader_c'] == 'cb':
                create = conn.create_tun if mode == 'tun' else \
                    conn.create_tap
                chan, sess = await create(
                    lambda: TSess(world, 'c', plan['pause_c']), **kw)
                res['cli'] = sess
            else:
                opener = conn.open_tun if mode == 'tun' else conn.open_tap
                reader, wr = await opener(**kw)
                chan = wr.channel
                res['stream'] = st = {'pkts': [], 'eof': False}

                async def read_all():
                    k = 0

                    while True:
                        data = await reader.read()

                        if not data:
                            st['eof'] = True
                            return

                        st['pkts'].append(bytes(data))
                        k += 1

                        if k in plan['pause_c']:
                            sim.probes['reader_paused'] += 1
                            await sim.pause('rd:c')

                sim.track('rd-c', read_all())
        except (asyncssh.Error, OSError) as exc:
            res['exc'] = exc
            await world.gate('done')
            conn.close()
            acc.close()
            return

        srv = res['srv']
        await srv.started
        sim.track('wr-c', writer(chan, 'c2s', plan['c2s']))
        sim.track('wr-s', writer(srv.chan, 's2c', plan['s2c']))
        await world.gate('io-done')
        chan.close()
        await chan.wait_closed()
        conn.close()
        await conn.wait_closed()
        acc.close()
        await acc.wait_closed()

    world.start(main())
    world.run_phase()

    if res['exc'] is not None:
        world.violation('open-failed', 'tunnel channel could not be opened: '
                        '%r' % (res['exc'],))
    elif res['write_exc'] is not None:
        world.violation('write-failed', 'write() of a packet that fits the '
                        'peer\'s window and maximum packet size raised %r' %
                        (res['write_exc'],))
    elif not sim.loop.capped and res['srv'] is not None:
        srv = res['srv']

        if res['cli'] is not None:
            got_c, eof_c = res['cli'].pkts, res['cli'].eof
        else:
            got_c, eof_c = res['stream']['pkts'], res['stream']['eof']

        for tagdir, side, got, eof in (
                ('c2s', plan['c2s'], srv.pkts, srv.eof),
                ('s2c', plan['s2c'], got_c, eof_c)):
            want = [packet(tagdir, k, n, mode)
                    for k, n in enumerate(side['pkts'])]

            if got != want:
                k = next((i for i, (a, b) in enumerate(zip(got, want))
                          if a != b), min(len(got), len(want)))
                kind = 'packets-short' if got == want[:len(got)] else \
                    'packets-mismatch'
                world.violation(
                    kind, '%s %s: %d packets written (sizes %r), %d '
                    'delivered (sizes %r), first difference at packet %d; '
                    'receiver window %d, max packet %d' %
                    (mode, tagdir, len(want), [len(p) for p in want][:12],
                     len(got), [len(p) for p in got][:12], k,
                     plan['s_window' if tagdir == 'c2s' else 'c_window'],
                     plan['s_pktsize' if tagdir == 'c2s' else 'c_pktsize']),
                    sig=tagdir)
                break

            if eof != side['eof']:
                world.violation(
                    'eof-mismatch', '%s %s: sender eof=%s receiver eof=%s '
                    '(%d packets)' % (mode, tagdir, side['eof'], eof,
                                      len(want)), sig=tagdir)
                break

        if sum(map(len, srv.pkts)) + sum(map(len, got_c)):
            sim.probes['tunnel_packets_delivered'] += 1

    if not sim.loop.capped:
        world.open_gate('io-done')
        world.open_gate('done')
        world.run_phase()

        for s in (res['srv'], res['cli']):
            if s is not None and s.lost != 1:
                world.violation('lost-count', '%s: connection_lost called %d '
                                'times' % (s.name, s.lost))

    sim.probes['pop_tuntap'] += 1
    world.check_loop_health(internal_errors=True)
    sample = {'mode': mode, 'c2s': plan['c2s']['pkts'][:8],
              's2c': plan['s2c']['pkts'][:8]}
    out = world.result(nontrivial=bool(plan['c2s']['pkts'] or
                                       plan['s2c']['pkts']), sample=sample)
    world.close()
    return out
