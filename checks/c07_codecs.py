"""C07, text channels with an encoding that has state: a byte order mark at
the start of a stream (utf-16, utf-32, utf-8-sig), characters of 2 or 4
bytes.  stdin, stdout and stderr are streams of their own: the characters
written to each come out of the other end of it, whichever is written first,
also when a text starts with U+FEFF (a legal character)."""

import asyncssh

from simkit.world import World, RecServer, client_opts, server_opts

CODECS = ['utf-16', 'utf-32', 'utf-8-sig', 'utf-16-le', 'utf-32-be', 'utf-8']
PIECES = ['a', 'hello', '﻿', '﻿x', 'é', '€', '\U0001f600',
          'x' * 40, '\n', 'ab﻿cd']


def gen_side(rng, types):
    ops = []

    for _ in range(rng.between(0, 8)):
        ops.append([rng.choice(types), rng.choice(PIECES), rng.below(3)])

    return ops


def gen_plan(rng):
    return {
        'drbg': rng.below(1 << 30),
        'profile': {'p_sched': rng.choice([0, 30, 70, 95]),
                    'p_chunk': rng.choice([10, 50, 90]),
                    'latency_ms': rng.choice([0, 0, 2]), 'capacity': 0},
        'pop': 'codecs', 'codec': rng.choice(CODECS),
        # small windows and packets split characters (and the mark)
        'window': rng.choice([3, 8, 64, 2097152]),
        'pktsize': rng.choice([1, 3, 7, 32768]),
        'c2s': gen_side(rng, [0]), 's2c': gen_side(rng, [0, 0, 1]),
        'eof': rng.chance(70),
    }


def valid_plan(plan):
    try:
        if plan['codec'] not in CODECS or plan['window'] < 1 or \
                plan['pktsize'] < 1:
            return False

        for side, types in (('c2s', (0,)), ('s2c', (0, 1))):
            if len(plan[side]) > 40:
                return False

            for dt, text, gap in plan[side]:
                if dt not in types or text not in PIECES or \
                        not 0 <= gap <= 5:
                    return False

        return True
    except (KeyError, TypeError, ValueError):
        return False


class _Rec:
    def __init__(self):
        self.got = {0: [], 1: []}
        self.eof = False
        self.chan = None
        self.lost = 0
        self.bad = []

    def connection_made(self, chan):
        self.chan = chan

    def shell_requested(self):
        return True

    def data_received(self, data, datatype):
        if not isinstance(data, str):
            self.bad.append(repr(data)[:40])
            return

        self.got[1 if datatype else 0].append(data)

    def eof_received(self):
        self.eof = True
        return True

    def connection_lost(self, exc):
        self.lost += 1


class CSess(_Rec, asyncssh.SSHClientSession):
    pass


class SSess(_Rec, asyncssh.SSHServerSession):
    pass


def run_plan(plan, sched_seed=None, sched_replay=None):
    world = World(plan, sched_seed, sched_replay)
    sim = world.sim
    codec = plan['codec']
    res = {'srv': None, 'cli': None, 'exc': None}

    class Srv(RecServer):
        def session_requested(self):
            res['srv'] = SSess()
            return res['srv']

    async def writer(chan, ops):
        for dt, text, gap in ops:
            for _ in range(gap):
                await sim.pause('wr')

            chan.write(text, asyncssh.EXTENDED_DATA_STDERR if dt else None)

        if plan['eof']:
            chan.write_eof()

    async def main():
        acc = await asyncssh.listen(
            '127.0.0.1', 22, server_factory=lambda: Srv(world),
            encoding=codec,
            **server_opts(window=plan['window'],
                          max_pktsize=plan['pktsize']))

        try:
            conn = await asyncssh.connect('127.0.0.1', 22, **client_opts())
            chan, sess = await conn.create_session(
                CSess, encoding=codec, window=plan['window'],
                max_pktsize=plan['pktsize'])
            res['cli'] = sess
        except (asyncssh.Error, OSError) as exc:
            res['exc'] = exc
            acc.close()
            return

        for _ in range(3):
            await sim.pause('settle')

        sim.track('wr-c', writer(chan, plan['c2s']))
        sim.track('wr-s', writer(res['srv'].chan, plan['s2c']))
        await world.gate('io-done')
        chan.close()
        await chan.wait_closed()
        conn.close()
        await conn.wait_closed()
        acc.close()
        await acc.wait_closed()

    world.start(main())
    world.run_phase()

    if res['exc'] is not None:
        world.violation('open-failed', 'session could not be opened: %r' %
                        (res['exc'],))
    elif not sim.loop.capped and res['srv'] is not None:
        for tagdir, ops, recv in (('c2s', plan['c2s'], res['srv']),
                                  ('s2c', plan['s2c'], res['cli'])):
            for dt in (0, 1):
                want = ''.join(text for d, text, _g in ops if d == dt)
                got = ''.join(recv.got[dt])

                if got != want:
                    world.violation(
                        'text-mismatch', '%s %s data type %d: written %r, '
                        'delivered %r (window %d, max packet %d; writes in '
                        'order: %r)' %
                        (codec, tagdir, dt, want[:60], got[:60],
                         plan['window'], plan['pktsize'],
                         [(d, t[:8]) for d, t, _g in ops][:10]),
                        sig='%s:%d' % (tagdir, dt))
                    break

            if recv.bad:
                world.violation('text-mismatch', 'a text channel delivered '
                                'bytes: %r' % recv.bad[:2])

            if not world.violations and recv.eof != plan['eof']:
                world.violation('eof-mismatch', '%s %s: eof written %s, '
                                'delivered %s' % (codec, tagdir, plan['eof'],
                                                  recv.eof), sig=tagdir)

        if any(t.startswith('﻿') for _d, t, _g in
               plan['c2s'] + plan['s2c']):
            sim.probes['text_starts_with_feff'] += 1

        if {d for d, _t, _g in plan['s2c']} == {0, 1}:
            sim.probes['two_text_streams'] += 1

    if not sim.loop.capped:
        world.open_gate('io-done')
        world.run_phase()

    sim.probes['pop_codecs'] += 1
    world.check_loop_health(internal_errors=True)
    out = world.result(
        nontrivial=bool(plan['c2s'] or plan['s2c']),
        sample={'codec': codec, 'window': plan['window'],
                'pktsize': plan['pktsize'],
                's2c': [(d, t[:6]) for d, t, _g in plan['s2c']][:8]})
    world.close()
    return out
