"""C12 -- SFTP transfers reproduce the source bytes exactly or report failure."""

import errno
import os
import shutil
import tempfile

import asyncssh

from simkit.sftpstub import StubSftpServer, MemFS
from simkit.world import World, RecClient, RecServer, client_opts, \
    server_opts
from .chanload import gen_bytes

ID = 'C12'
NAME = 'sftp_transfer'
QUICK_S = 45
THOROUGH_S = 900
CHUNK = 30

RULE = ('A real asyncssh SFTP client (get, put, copy, open+read/write/append '
        'with offsets, and sequences of write/read/seek/tell through one '
        'open file checked against a position model) over a real SSH '
        'session talks to an adversarial SFTP '
        'responder backed by an in-memory reference file model: replies to '
        'the outstanding requests are released in scheduler-chosen order, '
        'chosen replies are held back for several scheduler rounds so that '
        'dependent requests overtake them, '
        'READs return drawn fractions of the requested size, the n-th READ or '
        'WRITE fails, the source ends before the size stat announced. Drawn '
        'per run: file sizes around block-size and request-count boundaries, '
        'block_size 1..64k, max_requests 1..128. Oracle: a call that returns '
        'normally left exactly the source bytes at the destination (or '
        'returned exactly the model\'s bytes); a call during which a block '
        'error was injected, or a non-sparse copy whose source ended early, '
        'must raise; nothing hangs. A second population runs the same '
        'operations against the real SFTPServer on real files, '
        'half of them with sparse=True on sources that really are sparse on '
        'disk (drawn layouts of data and holes: leading, inner, trailing, '
        'all-hole, page-boundary lengths), '
        'and requires byte equality; in half of these runs the storage under '
        'the server is faulty: reads return a drawn fraction (never nothing) '
        'of what is there, one drawn write stores half its data and returns '
        'the count, after which the disk is fine again (the result must be '
        'exact) or full (the operation must raise). Non-trivial = at least one transfer of '
        '> 0 bytes; distinct = (plan, schedule, trace) signature.')

ASSUMPTIONS = [
    'simulated event loop admits exactly asyncio-legal executions',
    'the adversarial responder speaks SFTP v3 only and was written for this '
    'task; sparse-file ranges (ranges@asyncssh.com) are exercised only '
    'against the real server',
    'local files are real files in a per-run directory on tmpfs',
]

REAL = ['asyncssh SFTP client (SFTPClient, SFTPClientFile, parallel I/O), '
        'SSH transport of both endpoints; real SFTPServer in the real-server '
        'population']
STUB = ['event loop + clock', 'TCP', 'executor', 'adversarial SFTP responder '
        '+ in-memory file model']
PROBES = ['replies_reordered', 'replies_held_late', 'handle_sequences',
          'short_reads_served', 'read_error_injected',
          'write_error_injected', 'early_eof', 'op_raised', 'op_ok',
          'parallel_requests', 'real_server', 'storage_short_reads',
          'storage_partial_write', 'storage_full', 'size_withheld_refused',
          'copy_into_itself', 'sparse_copy', 'hole_layouts',
          'trailing_hole', 'read_without_block_size',
          'source_truncated_under_real_server', 'copy_onto_itself']

_base = [None]


def run_dir():
    if _base[0] is None:
        root = '/dev/shm' if os.path.isdir('/dev/shm') else None
        _base[0] = tempfile.mkdtemp(prefix='verif_c12_%d_' % os.getpid(),
                                    dir=root)
        import atexit
        atexit.register(shutil.rmtree, _base[0], True)

    d = tempfile.mkdtemp(dir=_base[0])
    return d


SIZES = [0, 1, 2, 100, 1023, 1024, 1025, 4095, 4096, 4097, 16383, 16384,
         16385, 32768, 50000, 65536, 100000, 262144]


def gen_plan(rng):
    real = rng.chance(20)
    bs = rng.choice([1, 7, 256, 1024, 4096, 16384, 65536])
    mr = rng.choice([1, 2, 3, 8, 128])
    ops = []

    for _ in range(rng.between(1, 4)):
        kind = rng.choice(['get', 'put', 'copy', 'read', 'write', 'append',
                           'handle'] + (['selfcopy'] if real else []))
        size = rng.choice(SIZES) if rng.chance(70) else \
            rng.between(0, 4 * bs * max(1, min(mr, 8)) + 3)

        if kind == 'selfcopy':
            # the server-side copy of a file "to its end" into itself, a bit
            # further on: the end moves away as fast as the copy advances
            size = rng.choice([1, 2, 100, 4096, 50000])
        size = min(size, bs * 150, 300000)
        op = {'op': kind, 'size': size}

        if kind == 'selfcopy':
            op['off'] = rng.choice([1, 1, size // 2 + 1, size])

        if kind == 'copy' and rng.chance(10):
            op['onto_itself'] = 'same'

        if kind == 'read':
            op['off'] = rng.choice([0, 0, 1, size // 2, size, size + 5])
            op['n'] = rng.choice([-1, 0, 1, size // 3 + 1, size, size + 10])
            # block_size None / 0: "each read is a single request" -- but
            # read() to the end of the file still returns all of it
            op['one_request'] = rng.choice([False, False, False, None, 0])
        elif kind == 'write':
            op['off'] = rng.choice([0, 0, 1, 10, size // 2])
            op['base'] = rng.choice([0, size // 2, size + 7])
        elif kind == 'handle':
            # several calls through one open file: the position carries over
            op['size'] = size = min(size, 20 * bs, 60000)
            steps = []

            for _s in range(rng.between(2, 6)):
                k = rng.weighted([('w', 40), ('r', 35), ('seek', 20),
                                  ('tell', 5)])
                off = rng.choice([None, None, 0, 0, 1, size // 2, size,
                                  size + 3])

                if k == 'w':
                    steps.append(['w', rng.choice([0, 1, bs, bs + 1,
                                                   3 * bs + 5, size // 3]),
                                  off])
                elif k == 'r':
                    steps.append(['r', rng.choice([-1, 0, 1, bs, 2 * bs + 1,
                                                   size]), off])
                elif k == 'seek':
                    steps.append(['seek', rng.choice([0, 1, size // 2, -1,
                                                      size]),
                                  rng.choice([0, 0, 1, 2])])
                else:
                    steps.append(['tell'])

            op['steps'] = steps

        ops.append(op)

    policy = {'reorder': rng.chance(75)}

    if not real and rng.chance(50):
        # some replies come late: held back while later requests, and the
        # requests that depend on their replies, are served
        policy['late'] = [[rng.below(14), rng.choice([2, 4, 8, 20])]
                          for _ in range(rng.between(1, 3))]

    if not real:
        if rng.chance(50):
            policy['short_reads'] = [rng.choice([1, 10, 300, 500, 999, 1000,
                                                 1000])
                                     for _ in range(rng.between(1, 5))]

        f = rng.weighted([('none', 50), ('read_error', 15),
                          ('write_error', 15), ('early_eof', 15),
                          ('no_size', 5)])

        if f == 'no_size':
            # the server's attributes do not carry a size (it is optional)
            policy['no_size'] = True

        if f == 'read_error':
            policy['read_error_at'] = rng.below(12)
        elif f == 'write_error':
            policy['write_error_at'] = rng.below(12)
        elif f == 'early_eof':
            policy['eof_frac'] = rng.choice([0, 100, 500, 900, 999])

    sparse = real and rng.chance(50)
    srv_io = None

    if real and rng.chance(50):
        # faults of the storage under the real server: a read returns part
        # of what is there (never nothing), one write stores only part of
        # its data and says so -- after which the disk is either fine again
        # or full
        srv_io = {'short_reads': [rng.choice([250, 300, 500, 999, 1000, 1000])
                                  for _ in range(rng.between(1, 4))]
                  if rng.chance(60) else None,
                  'partial_write_at': rng.below(10) if rng.chance(50)
                  else None,
                  'then': rng.choice(['fine', 'fine', 'full'])}

        if not sparse and rng.chance(25):
            # the source loses its tail between the moment its size is
            # looked up and the moment it is read (somebody truncates it)
            srv_io['eof_frac'] = rng.choice([0, 100, 500, 900, 999])

    if sparse:
        # hole layouts: [[kind, length], ...]; the file really is sparse
        # on disk (tmpfs supports SEEK_DATA / SEEK_HOLE, page granularity)
        bs = rng.choice([1024, 4096, 16384, 65536])

        for op in ops:
            op['size'] = min(op['size'], bs * 150)

            if op['op'] in ('get', 'put', 'copy'):
                layout = []
                total = 0

                for _s in range(rng.between(1, 4)):
                    n = rng.choice([1, 4095, 4096, 4097, 8192, 20000, 70000])

                    if total + n > bs * 100:
                        break

                    layout.append([rng.choice(['d', 'h']), n])
                    total += n

                if layout:
                    op['layout'] = layout
                    op['size'] = total

    probe = {'block_size': bs, 'ops': ops, 'policy': policy,
             'srv_io': srv_io}

    if est_requests(probe) > 600:
        policy['short_reads'] = [500, 1000]

    while est_requests(probe) > 600:
        big = max(ops, key=lambda o: o['size'])
        big['size'] //= 2

        if big['op'] == 'selfcopy':
            big['size'] = max(big['size'], 1)
            big['off'] = min(big['off'], big['size'])

        if 'layout' in big:
            # keep the layout in step with the size
            left, fitted = big['size'], []

            for k, n in big['layout']:
                if left <= 0:
                    break

                fitted.append([k, min(n, left)])
                left -= min(n, left)

            big['layout'] = fitted
            big['size'] = sum(n for _k, n in fitted)

            if not fitted:
                del big['layout']

    return {
        'drbg': rng.below(1 << 30),
        'profile': {'p_sched': rng.choice([0, 30, 70, 95]),
                    'p_chunk': rng.choice([10, 50]),
                    'latency_ms': rng.choice([0, 0, 2]),
                    'capacity': 0, 'max_iterations': 40000},
        'real_server': real, 'sparse': sparse,
        'block_size': bs, 'max_requests': mr,
        'ops': ops, 'policy': policy, 'srv_io': srv_io,
    }


def est_requests(plan, cap=2000):
    """Read requests the plan needs, counted the way the responder serves
       them: a short read returns a fraction of what was *asked for*, and the
       client asks again for the rest of the block, so a small fraction
       costs about 1000/fraction x ln(block) requests per block"""

    sr = plan['policy'].get('short_reads') or [1000]
    io = plan.get('srv_io') or {}
    sr2 = io.get('short_reads') or [1000]
    bs = plan['block_size']
    count = 0
    k = 0

    for op in plan['ops']:
        left = op['size']
        count += 4

        while left > 0 and count <= cap:
            r = min(bs, left)
            left -= r

            while r > 0 and count <= cap:
                frac = min(sr[k % len(sr)], sr2[k % len(sr2)])
                k += 1
                r -= max(1, r * frac // 1000)
                count += 1

    return count


def valid_plan(plan):
    try:
        if plan['block_size'] < 1 or plan['max_requests'] < 1:
            return False

        for op in plan['ops']:
            if op['op'] == 'selfcopy' and (not plan['real_server'] or
                                           not 1 <= op['off'] <= op['size']
                                           or op['size'] > 60000):
                return False

            if op['op'] not in ('get', 'put', 'copy', 'read', 'write',
                                'append', 'handle', 'selfcopy') or \
                    not 0 <= op['size'] <= 300000:
                return False

            if op['op'] == 'handle':
                for st in op['steps']:
                    if st[0] not in ('w', 'r', 'seek', 'tell') or \
                            len(st) != {'w': 3, 'r': 3, 'seek': 3,
                                        'tell': 1}[st[0]]:
                        return False

                    if st[0] == 'w' and not 0 <= st[1] <= 200000:
                        return False

                    if st[0] in ('w', 'r') and st[2] is not None and \
                            not 0 <= st[2] <= 400000:
                        return False

                    if st[0] == 'seek' and st[2] not in (0, 1, 2):
                        return False

            if op['size'] > plan['block_size'] * 150:
                return False

            if 'layout' in op:
                if not plan['sparse'] or \
                        op['op'] not in ('get', 'put', 'copy') or \
                        sum(n for _k, n in op['layout']) != op['size'] or \
                        any(k not in ('d', 'h') or n < 1
                            for k, n in op['layout']):
                    return False

        io = plan.get('srv_io')

        if io is not None:
            if not plan['real_server'] or io['then'] not in ('fine', 'full'):
                return False

            if io['short_reads'] is not None and \
                    (not io['short_reads'] or
                     any(not 250 <= x <= 1000 for x in io['short_reads'])):
                return False

            if io.get('eof_frac') is not None and \
                    (plan['sparse'] or not 0 <= io['eof_frac'] <= 1000):
                return False

            if io['partial_write_at'] is not None and \
                    not 0 <= io['partial_write_at'] <= 1000:
                return False

        sr = plan['policy'].get('short_reads')

        if sr is not None and (not sr or any(not 1 <= x <= 1000
                                             for x in sr)):
            return False

        for ent in plan['policy'].get('late', []):
            if len(ent) != 2 or not 0 <= ent[0] <= 1000 or \
                    not 0 <= ent[1] <= 64:
                return False

        if est_requests(plan) > 600:
            return False

        return True
    except (KeyError, TypeError, ValueError, IndexError):
        return False


def run_plan(plan, sched_seed=None, sched_replay=None):
    world = World(plan, sched_seed, sched_replay)
    sim = world.sim
    d = run_dir()
    fs = MemFS()
    policy = dict(plan['policy'])
    stub = {}
    results = []
    bs, mr = plan['block_size'], plan['max_requests']
    real = plan['real_server']
    srvroot = os.path.join(d, 'srv')
    os.mkdir(srvroot)

    class StubSession(asyncssh.SSHServerSession):
        def connection_made(self, chan):
            s = StubSftpServer(sim, fs, policy)
            s.writer = chan
            stub['s'] = s
            self.stub = s

        def subsystem_requested(self, subsystem):
            return subsystem == 'sftp'

        def data_received(self, data, datatype):
            self.stub.feed(data)

        def eof_received(self):
            return False

    class Srv(RecServer):
        def session_requested(self):
            return StubSession()

    def remote_bytes(name):
        if real:
            try:
                with open(os.path.join(srvroot, name), 'rb') as f:
                    return f.read()
            except OSError:
                return None

        data = fs.files.get(b'/' + name.encode())
        return None if data is None else bytes(data)

    def write_layout(path, layout, tag):
        """Create a really sparse file; returns its content"""

        pos = 0

        with open(path, 'wb') as f:
            for k, n in layout:
                if k == 'd':
                    f.seek(pos)
                    f.write(gen_bytes(tag, pos, n).replace(b'\0', b'\1'))

                pos += n

            f.truncate(pos)

        with open(path, 'rb') as f:
            return f.read()

    def set_remote(name, data):
        if real:
            with open(os.path.join(srvroot, name), 'wb') as f:
                f.write(data)
        else:
            fs.files[b'/' + name.encode()] = bytearray(data)

    io = plan.get('srv_io') or {}
    iostat = {'reads': 0, 'writes': 0, 'short_reads': 0, 'partial': 0,
              'full': 0}

    class FaultyStorageServer(asyncssh.SFTPServer):
        """The real server on a disk that reads and writes short"""

        def read(self, file_obj, offset, size):
            cut = iostat.get('eof_at')

            if cut is not None:
                if offset >= cut:
                    return b''

                size = min(size, cut - offset)

            k = iostat['reads']
            iostat['reads'] += 1
            shorts = io.get('short_reads')

            if shorts and size > 1:
                want = max(1, size * shorts[k % len(shorts)] // 1000)

                if want < size:
                    data = super().read(file_obj, offset, want)

                    if len(data) == want:
                        iostat['short_reads'] += 1

                    return data

            return super().read(file_obj, offset, size)

        def write(self, file_obj, offset, data):
            if offset > 8 << 20:
                # (a quota on the scratch disk: nothing legitimate in these
                # runs gets near it)
                raise OSError(errno.EDQUOT, 'Disk quota exceeded')

            k = iostat['writes']
            iostat['writes'] += 1
            at = io.get('partial_write_at')

            if at is not None and k == at and len(data) > 1:
                iostat['partial'] += 1
                return super().write(file_obj, offset, data[:len(data) // 2])

            if at is not None and k > at and iostat['partial'] and \
                    io['then'] == 'full' and data:
                iostat['full'] += 1
                raise OSError(errno.ENOSPC, 'No space left on device')

            return super().write(file_obj, offset, data)

    async def main():
        if real:
            acc = await asyncssh.listen(
                '127.0.0.1', 22, server_factory=lambda: RecServer(world),
                sftp_factory=lambda chan: FaultyStorageServer(
                    chan, chroot=srvroot.encode()),
                **server_opts(encoding=None))
        else:
            acc = await asyncssh.listen('127.0.0.1', 22,
                                        server_factory=lambda: Srv(world),
                                        **server_opts(encoding=None))

        conn = await asyncssh.connect('127.0.0.1', 22, **client_opts())
        sftp = await conn.start_sftp_client()

        for i, op in enumerate(plan['ops']):
            kind, size = op['op'], op['size']
            src = gen_bytes('c12.%d' % i, 0, size)
            rec = {'i': i, 'op': kind, 'size': size, 'raised': None,
                   'ok': None, 'detail': ''}
            s = stub.get('s')
            err0 = s.errors_injected if s else 0
            full0 = iostat['full']
            rname, rname2 = 'r%d.bin' % i, 'r%d.copy' % i
            lpath = os.path.join(d, 'l%d.bin' % i)
            eof_at = None

            if 'eof_frac' in policy and kind in ('get', 'copy', 'read') \
                    and size > 0:
                eof_at = size * policy['eof_frac'] // 1000
                policy['eof_at'] = eof_at
                policy['announce_size'] = size
            else:
                policy.pop('eof_at', None)
                # (and the size announced for the previous operation's file)
                policy.pop('announce_size', None)

            iostat['eof_at'] = None

            if real and io.get('eof_frac') is not None and \
                    kind in ('get', 'copy') and size > 0:
                eof_at = size * io['eof_frac'] // 1000
                iostat['eof_at'] = eof_at
                policy['eof_at'] = eof_at
                sim.probes['source_truncated_under_real_server'] += 1
                policy.pop('announce_size', None)

            if op.get('layout') and real:
                sim.probes['hole_layouts'] += 1

                if op['layout'][-1][0] == 'h':
                    sim.probes['trailing_hole'] += 1

            try:
                if kind == 'get':
                    if op.get('layout') and real:
                        src = write_layout(os.path.join(srvroot, rname),
                                           op['layout'], 'c12s.%d' % i)
                    else:
                        set_remote(rname, src)

                    await sftp.get(rname, lpath, block_size=bs,
                                   max_requests=mr, sparse=plan['sparse'])

                    with open(lpath, 'rb') as f:
                        got = f.read()

                    rec['ok'] = got == src
                    rec['detail'] = 'local %d bytes vs source %d' % \
                        (len(got), len(src))
                elif kind == 'put':
                    if op.get('layout'):
                        src = write_layout(lpath, op['layout'],
                                           'c12s.%d' % i)
                    else:
                        with open(lpath, 'wb') as f:
                            f.write(src)

                    await sftp.put(lpath, rname, block_size=bs,
                                   max_requests=mr, sparse=plan['sparse'])
                    got = remote_bytes(rname)
                    rec['ok'] = got == src
                    rec['detail'] = 'remote %r bytes vs source %d' % \
                        (None if got is None else len(got), len(src))
                elif kind == 'copy':
                    if op.get('layout') and real:
                        src = write_layout(os.path.join(srvroot, rname),
                                           op['layout'], 'c12s.%d' % i)
                    else:
                        set_remote(rname, src)

                    if op.get('onto_itself'):
                        # the destination the call resolves to is the source
                        # itself: refused, or at least harmless
                        sim.probes['copy_onto_itself'] += 1
                        rname2 = rname
                        rec['onto_itself'] = True

                    await sftp.copy(rname, rname2, block_size=bs,
                                    max_requests=mr, sparse=plan['sparse'])
                    got = remote_bytes(rname2)
                    rec['ok'] = got == src
                    rec['detail'] = 'copy %r bytes vs source %d' % \
                        (None if got is None else len(got), len(src))
                elif kind == 'selfcopy':
                    sim.probes['copy_into_itself'] += 1
                    set_remote(rname, src)

                    async with sftp.open(rname, 'rb') as f1:
                        async with sftp.open(rname, 'r+b') as f2:
                            # length 0: "to the end of the file"
                            await sftp.remote_copy(f1, f2, 0, 0, op['off'])

                    got = remote_bytes(rname)
                    want = src[:op['off']] + src

                    if op['off'] < len(src):
                        # source and destination ranges overlap: what the
                        # overlap ends up holding is nobody's promise; that
                        # the copy ends, and where, is
                        rec['ok'] = got is not None and len(got) == len(want)
                    else:
                        rec['ok'] = got == want
                    rec['detail'] = 'copy of the file into itself at ' \
                        'offset %d: %r bytes, expected %d' % \
                        (op['off'], None if got is None else len(got),
                         len(want))
                elif kind == 'handle':
                    sim.probes['handle_sequences'] += 1
                    set_remote(rname, src)
                    model = bytearray(src)
                    pos = 0
                    bad = None

                    async with sftp.open(rname, 'r+b', block_size=bs,
                                         max_requests=mr) as f:
                        for j, st in enumerate(op['steps']):
                            if pos is None and (
                                    st[0] == 'tell' or
                                    (st[0] in ('w', 'r') and st[2] is None)
                                    or (st[0] == 'seek' and st[2] == 1)):
                                # position not defined by the documentation
                                # at this point (see below)
                                continue

                            if st[0] == 'w':
                                data = gen_bytes('c12h.%d.%d' % (i, j), 0,
                                                 st[1])
                                at = pos if st[2] is None else st[2]
                                await f.write(data, st[2])

                                if data:
                                    if at > len(model):
                                        model.extend(bytes(at - len(model)))

                                    model[at:at + len(data)] = data

                                pos = at + len(data)
                            elif st[0] == 'r':
                                at = pos if st[2] is None else st[2]
                                got = await f.read(st[1], st[2])
                                want = bytes(model[at:]) if st[1] < 0 else \
                                    bytes(model[at:at + st[1]])

                                if st[1] < 0:
                                    good = got == want
                                else:
                                    good = want[:len(got)] == got and \
                                        (len(got) > 0 or not want)

                                if not good and bad is None:
                                    bad = 'step %d read(%d, %r) at %d gave ' \
                                        '%d bytes that are not the file\'s ' \
                                        '(model has %d there)' % (
                                            j, st[1], st[2], at, len(got),
                                            len(want))

                                pos = at + len(got)

                                if not got and st[2] is not None:
                                    # an explicit-offset read that returns
                                    # nothing: whether the position moves to
                                    # that offset is not documented
                                    pos = None
                            elif st[0] == 'seek':
                                ref = {0: 0, 1: pos, 2: len(model)}[st[2]]
                                target = ref + st[1]

                                if target < 0:
                                    continue

                                got = await f.seek(st[1], st[2])
                                pos = target

                                if got != target and bad is None:
                                    bad = 'step %d seek(%d, %d) returned ' \
                                        '%r, expected %d' % (j, st[1], st[2],
                                                             got, target)
                            else:
                                got = await f.tell()

                                if got != pos and bad is None:
                                    bad = 'step %d tell() returned %r, ' \
                                        'position is %d' % (j, got, pos)

                    got = remote_bytes(rname)

                    if bad is None and got != bytes(model):
                        bad = 'file content after steps %r differs from ' \
                            'the model (%r vs %d bytes)' % (
                                op['steps'], None if got is None
                                else len(got), len(model))

                    rec['ok'] = bad is None
                    rec['detail'] = bad or 'handle sequence ok'
                elif kind == 'read':
                    set_remote(rname, src)

                    obs = op.get('one_request', False)

                    if obs is not False:
                        sim.probes['read_without_block_size'] += 1

                    async with sftp.open(rname, 'rb',
                                         block_size=bs if obs is False
                                         else obs, max_requests=mr) as f:
                        got = await f.read(op['n'], op['off'])

                    n, off = op['n'], op['off']
                    end = len(src) if eof_at is None else eof_at
                    want = src[off:end] if n < 0 else src[off:min(end,
                                                                  off + n)]

                    if n < 0:
                        rec['ok'] = got == want
                    else:
                        # "up to size bytes": any non-empty prefix is legal
                        rec['ok'] = want[:len(got)] == got and \
                            (len(got) > 0 or not want)
                    rec['detail'] = 'read(%d, %d) gave %d bytes, model %d' % \
                        (n, off, len(got), len(want))
                else:
                    base = gen_bytes('c12b.%d' % i, 0, op.get('base', 0)
                                     if kind == 'write' else size // 2)
                    set_remote(rname, base)

                    if kind == 'write':
                        off = op['off']

                        async with sftp.open(rname, 'r+b', block_size=bs,
                                             max_requests=mr) as f:
                            await f.write(src, off)

                        want = bytearray(base)

                        if src:
                            if off > len(want):
                                want.extend(bytes(off - len(want)))

                            want[off:off + len(src)] = src
                    else:
                        async with sftp.open(rname, 'ab', block_size=bs,
                                             max_requests=mr) as f:
                            await f.write(src)

                        want = base + src

                    got = remote_bytes(rname)
                    rec['ok'] = got == bytes(want)
                    rec['detail'] = '%s: remote %r bytes vs model %d' % \
                        (kind, None if got is None else len(got), len(want))
            except (asyncssh.Error, OSError, OverflowError,
                    ValueError) as exc:
                rec['raised'] = exc

            rec['error_injected'] = bool(s and s.errors_injected > err0)
            # a disk that stayed full cannot hold the result: the operation
            # has to fail (a disk that recovered can: it has to be exact)
            rec['disk_full'] = iostat['full'] > full0
            rec['early_eof'] = eof_at is not None and eof_at < size
            results.append(rec)

            if conn.is_closed():
                break

        sftp.exit()
        await world.gate('done')
        conn.close()
        await conn.wait_closed()
        acc.close()
        await acc.wait_closed()

    try:
        world.start(main())
        world.run_phase()
        s = stub.get('s')

        for rec in results:
            op = plan['ops'][rec['i']]

            if rec['raised'] is None:
                sim.probes['op_ok'] += 1

                if rec['disk_full']:
                    world.violation(
                        'error-swallowed',
                        '%s returned normally although the server\'s disk '
                        'was full after a partial write (srv_io %r)' %
                        (rec['op'], io), sig=rec['op'] + '-disk-full')
                elif not rec['ok']:
                    world.violation(
                        'corrupt-success',
                        '%s of %d bytes (block_size=%d max_requests=%d, '
                        'policy %r) returned normally but %s' %
                        (rec['op'], rec['size'], bs, mr, plan['policy'],
                         rec['detail']), sig=rec['op'])
                elif rec['error_injected']:
                    world.violation(
                        'error-swallowed',
                        '%s returned normally although a block request '
                        'failed during it (policy %r)' %
                        (rec['op'], plan['policy']), sig=rec['op'])
                elif rec['early_eof'] and rec['op'] in ('get', 'copy') and \
                        not plan['sparse']:
                    world.violation(
                        'short-source-accepted',
                        '%s returned normally although the source ended at '
                        '%d of the %d bytes announced' %
                        (rec['op'], policy.get('eof_at', -1), rec['size']),
                        sig=rec['op'])
            else:
                sim.probes['op_raised'] += 1

                if policy.get('no_size'):
                    # without a size the client may refuse; it must not
                    # invent one
                    sim.probes['size_withheld_refused'] += 1
                elif rec.get('onto_itself'):
                    # refusing to copy a file onto itself is fine
                    pass
                elif not rec['error_injected'] and not rec['early_eof'] and \
                        not rec['disk_full'] and not (s and s.bad_replies):
                    world.violation(
                        'spurious-failure',
                        '%s of %d bytes failed without any injected fault: '
                        '%r (block_size=%d max_requests=%d policy %r)' %
                        (rec['op'], rec['size'], rec['raised'], bs, mr,
                         plan['policy']), sig=rec['op'])

        if len(results) < len(plan['ops']) and not sim.loop.capped and \
                not any(r['raised'] for r in results):
            world.violation('hang', 'operation #%d never completed' %
                            len(results))

        if s is not None:
            sim.probes['replies_reordered'] += s.reordered
            sim.probes['replies_held_late'] += s.held_late
            sim.probes['short_reads_served'] += s.short_served

            if s.max_outstanding > 1:
                sim.probes['parallel_requests'] += 1

            if 'read_error_at' in policy and s.errors_injected:
                sim.probes['read_error_injected'] += 1

            if 'write_error_at' in policy and s.errors_injected:
                sim.probes['write_error_injected'] += 1

        if any(r['early_eof'] for r in results):
            sim.probes['early_eof'] += 1

        if real:
            sim.probes['real_server'] += 1
            sim.probes['storage_short_reads'] += iostat['short_reads']
            sim.probes['storage_partial_write'] += iostat['partial']
            sim.probes['storage_full'] += iostat['full']

            if plan['sparse']:
                sim.probes['sparse_copy'] += 1

        world.open_gate('done')
        world.run_phase()
        world.check_loop_health(loop_errors=False)
        total = sum(r['size'] for r in results)
        sample = {'ops': plan['ops'], 'block_size': bs, 'max_requests': mr,
                  'policy': plan['policy'], 'real_server': real,
                  'results': [(r['op'], r['size'],
                               type(r['raised']).__name__ if r['raised']
                               else 'ok') for r in results],
                  'reordered': s.reordered if s else 0,
                  'max_outstanding': s.max_outstanding if s else None}
        return world.result(nontrivial=total > 0, sample=sample)
    finally:
        world.close()
        shutil.rmtree(d, ignore_errors=True)
