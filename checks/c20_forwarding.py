"""C20 -- forwarded connections relay faithfully and only where permitted."""

import asyncio

import asyncssh

from simkit.net import CutWire
from simkit.world import World, RecClient, RecServer, client_opts, \
    server_opts, key, pubkey
from .chanload import gen_bytes, first_diff

ID = 'C20'
NAME = 'forwarding'
QUICK_S = 45
THOROUGH_S = 900
CHUNK = 40

RULE = ('Four-ended topology on the simulated network: origin application '
        '-> local TCP/UNIX listener or SOCKS4/4a/5 listener of a real '
        'asyncssh client -> SSH -> real asyncssh server -> destination '
        'application, and the mirror image for remote forwarding '
        '(tcpip-forward on fixed or server-chosen ports, '
        'streamlocal-forward on UNIX paths); 1-3 concurrent forwarded '
        'connections. Origin and '
        'destination run drawn programs of writes (also before the channel '
        'is confirmed), half-close, close, abort and reading pauses (slow '
        'consumer); the scheduler interleaves the four ends. Configurations: '
        'authorized_keys permitopen / no-port-forwarding, a server '
        'application that refuses some destinations and listen requests, '
        'optional loss of the SSH connection at a drawn packet. Oracle: per '
        'direction delivered == sent (prefix if an end closed first), EOF '
        'reaches the far end after all data while the other direction keeps '
        'flowing, closing either end closes both sockets, a connection or '
        'listen request is served iff the permission model allows it, after '
        'the SSH connection ends no listener and no relayed socket remains, '
        'an origin that goes away while its channel open is in flight leaves '
        'no channel or destination socket behind, nothing hangs. Non-trivial '
        '= at least one forwarded connection carried data or was refused by '
        'policy; distinct = (plan, schedule, trace) signature.')

ASSUMPTIONS = [
    'simulated event loop admits exactly asyncio-legal executions',
    'origin and destination applications are stubs on the simulated network',
    'X11 and agent forwarding, TUN/TAP and ProxyCommand are not exercised',
]

REAL = ['asyncssh forward.py, listener.py, socks.py, connection/channel '
        'forwarding paths of both endpoints']
STUB = ['event loop + clock', 'TCP/UNIX sockets and listeners', 'DNS',
        'executor', 'origin and destination applications']
PROBES = ['via_jump_host', 'destination_resolver_rejects', 'duplicate_listen_while_relaying', 'socks_request_never_completed', 'connected_behind_the_grant', 'listener_closed_twice', 'duplicate_listen_request', 'dynamic_listen_ports', 'mode_remote_unix', 'mode_local', 'mode_socks', 'mode_remote', 'mode_local_unix',
          'early_data', 'half_close', 'origin_abort', 'dest_close_first',
          'slow_consumer', 'refused_by_policy', 'ssh_cut',
          'origin_gone_during_open', 'multi_conn', 'listen_refused']

DESTS = [['dest', 80], ['other', 81]]


def gen_prog(rng, allow_early):
    ops = []

    for _ in range(rng.between(0, 8)):
        k = rng.weighted([('w', 45), ('y', 25), ('pause', 10), ('eof', 8),
                          ('close', 6), ('abort', 6)])

        if k == 'w':
            ops.append(['w', rng.choice([1, 10, 100, 5000, 70000])])
        elif k == 'pause':
            ops.append(['pause', rng.between(1, 6)])
        else:
            ops.append([k])

        if k in ('eof', 'close', 'abort'):
            break

    if not any(o[0] in ('close', 'abort') for o in ops) and rng.chance(70):
        if not any(o[0] == 'eof' for o in ops):
            ops.append(['eof'])

    return ops


def gen_plan(rng):
    mode = rng.weighted([('local', 38), ('socks', 20), ('remote', 22),
                         ('local_unix', 12), ('remote_unix', 8)])
    conns = []

    for _ in range(rng.weighted([(1, 6), (2, 3), (3, 1)])):
        conns.append({
            'dest': rng.weighted([(0, 7), (1, 3)]),
            'origin': gen_prog(rng, True),
            'target': gen_prog(rng, False),
            'delay': rng.choice([0, 0, 1, 3]),
            'socks_ver': rng.choice([5, 5, 4, '4a']),
            'early_gone': rng.chance(12),
        })

    opt = rng.weighted([('none', 50), ('permitopen_dest', 20),
                        ('permitopen_other', 10), ('no_pf', 10),
                        ('permitopen_both', 10)])
    cut = None

    if rng.chance(20):
        cut = {'dir': rng.choice(['c2s', 's2c']),
               'index': rng.weighted([(8 + rng.below(8), 5),
                                      (8 + rng.below(60), 5)]),
               # 0: lose the link instead of this packet; large: right
               # after it was delivered (a request is then in flight)
               'off': rng.choice([0, 100000, 100000]),
               'how': rng.choice(['rst', 'eof'])}

    return {
        'drbg': rng.below(1 << 30),
        'profile': {'p_sched': rng.choice([0, 30, 70, 95]),
                    'p_chunk': rng.choice([10, 50]),
                    'latency_ms': rng.choice([0, 0, 2]),
                    'capacity': rng.choice([0, 0, 4096])},
        'mode': mode, 'conns': conns, 'key_option': opt,
        'app_refuses': rng.choice([[], [], [1], [0]]),
        'listen_refused': rng.chance(10),
        'window': rng.choice([1000, 65536, 2097152]),
        'cut': cut,
        'dyn_ports': mode == 'remote' and rng.chance(40),
        'dup_listen': mode in ('remote_unix', 'local_unix') and
        rng.chance(40),
        'eager': mode == 'remote' and rng.chance(30),
        'socks_stuck': rng.choice([None, None, 'fin', 'hold'])
        if mode == 'socks' else None,
        'lclose2': rng.choice([0, 0, 0, 1, 5, 30])
        if mode in ('remote', 'remote_unix') else 0,
        # while connections come in on listener 0, the application asks
        # for the same address again, to be relayed somewhere else (the
        # server refuses: the address is in use)
        'late_dup': {'delay': rng.below(8)}
        if mode in ('remote', 'remote_unix') and rng.chance(25) else None,
        # while the others are relayed, one more connection is asked for,
        # to a destination whose name or port the resolver call rejects
        # outright (not "unknown": it cannot even be looked up)
        # the server is a jump host: it relays direct connections over an
        # SSH connection of its own to the server next to the destinations
        'jump': mode in ('local', 'socks') and rng.chance(25),
        'bad_dest': rng.choice([
            {'host': 'x' * 64 + '.example', 'port': 80},
            {'host': 'a..b', 'port': 80}, {'host': 'de\0st', 'port': 80},
            {'host': 'dest', 'port': 70000},
            {'host': 'dest', 'port': 4294967295},
            {'host': 'a..b', 'port': 70000}]) if rng.chance(15) else None,
    }


def valid_plan(plan):
    try:
        if plan['mode'] not in ('local', 'socks', 'remote', 'local_unix',
                                'remote_unix'):
            return False

        bd = plan.get('bad_dest')

        if bd is not None:
            # (a destination the resolver call itself rejects: a bad label,
            # a NUL, or a port that does not exist)
            labels = bd['host'].rstrip('.').split('.')
            bad_name = '\0' in bd['host'] or \
                any(not 0 < len(x) < 64 for x in labels)

            if not (bad_name or not 0 <= bd['port'] <= 65535) or \
                    not 0 <= bd['port'] < 1 << 32 or \
                    not 0 <= bd.get('delay', 0) <= 20:
                return False

        if plan.get('jump') and plan['mode'] not in ('local', 'socks'):
            return False

        for c in plan['conns']:
            if c['dest'] not in (0, 1) or \
                    c['socks_ver'] not in (5, 4, '4a'):
                return False

            for prog in (c['origin'], c['target']):
                for op in prog:
                    if op[0] not in ('w', 'y', 'pause', 'eof', 'close',
                                     'abort'):
                        return False

                    if op[0] == 'w' and not (len(op) == 2 and
                                             0 < op[1] <= 100000):
                        return False

                    if op[0] == 'pause' and not (len(op) == 2 and
                                                 0 < op[1] < 20):
                        return False

        return len(plan['conns']) >= 1 and plan['window'] >= 100
    except (KeyError, TypeError, IndexError):
        return False


class End(asyncio.Protocol):
    """Origin or destination application"""

    def __init__(self, world, name, prog, tag, preamble=None):
        self.world = world
        self.sim = world.sim
        self.name = name
        self.prog = prog
        self.tag = tag
        self.transport = None
        self.recv = bytearray()
        self.sent = 0
        self.eof = False
        self.sent_eof = False
        self.closed_locally = None
        self.lost = None
        self.lost_seen = False
        self.task = None
        self.preamble = preamble
        self.ready = self.sim.loop.create_future()
        self.paused = 0
        self.close_on_eof = False
        self.prog_done = False
        self.closed_after_eof = False

    def connection_made(self, transport):
        self.transport = transport
        self.world.event(self.name, 'made')
        self.task = self.sim.track('prog-' + self.name, self.run())

    def data_received(self, data):
        self.recv += data

        if self.preamble is not None:
            self.preamble.feed(self)

    def eof_received(self):
        self.eof = True
        self.world.event(self.name, 'eof')

        if self.close_on_eof and self.prog_done and \
                self.transport is not None:
            self.closed_after_eof = True
            self.transport.close()

        if self.preamble is not None:
            self.preamble.feed(self)

        return True

    def connection_lost(self, exc):
        self.lost = exc
        self.lost_seen = True
        self.world.event(self.name, 'lost', type(exc).__name__ if exc
                         else None)

        if not self.ready.done():
            self.ready.set_result(False)

        if self.preamble is not None:
            self.preamble.feed(self)

    async def run(self):
        sim = self.sim
        t = self.transport

        if self.preamble is not None:
            ok = await self.preamble.run(self)

            if not ok:
                return

        if not self.ready.done():
            self.ready.set_result(True)

        for op in self.prog:
            if self.lost_seen or t.is_closing():
                break

            k = op[0]

            if k == 'w':
                data = gen_bytes(self.tag, self.sent, op[1])
                self.sent += op[1]
                t.write(data)
            elif k == 'eof':
                self.sent_eof = True
                t.write_eof()
                sim.probes['half_close'] += 1
            elif k == 'close':
                self.closed_locally = 'close'
                t.close()
            elif k == 'abort':
                self.closed_locally = 'abort'
                t.abort()
            elif k == 'pause':
                t.pause_reading()
                sim.probes['slow_consumer'] += 1

                for _ in range(op[1]):
                    await sim.pause('paused:' + self.name)

                t.resume_reading()
            else:
                await sim.pause('end:' + self.name)

        self.prog_done = True

        if self.close_on_eof and self.eof and not self.lost_seen and \
                not t.is_closing():
            self.closed_after_eof = True
            t.close()


class Socks:
    """Client half of a SOCKS handshake run by an origin"""

    def __init__(self, ver, host, port):
        self.ver = ver
        self.host = host
        self.port = port
        self.waiter = None
        self.need = 0

    def feed(self, end):
        if self.waiter is not None and not self.waiter.done() and \
                (len(end.recv) >= self.need or end.lost_seen or end.eof):
            self.waiter.set_result(None)

    async def take(self, end, n):
        while len(end.recv) < n:
            if end.lost_seen or end.eof:
                return None

            self.need = n
            self.waiter = end.sim.loop.create_future()
            end.wait_hook = self.waiter
            await self.waiter

        out = bytes(end.recv[:n])
        del end.recv[:n]
        return out

    async def run(self, end):
        t = end.transport
        host = self.host.encode()

        if self.ver == 5:
            t.write(b'\x05\x01\x00')
            r = await self.take(end, 2)

            if r != b'\x05\x00':
                return False

            t.write(b'\x05\x01\x00\x03' + bytes([len(host)]) + host +
                    self.port.to_bytes(2, 'big'))
            r = await self.take(end, 10)
            ok = r is not None and r[:2] == b'\x05\x00'
        else:
            if self.ver == 4:
                t.write(b'\x04\x01' + self.port.to_bytes(2, 'big') +
                        bytes([10, 0, 0, 5 + (self.host == 'other')]) +
                        b'user\x00')
            else:
                t.write(b'\x04\x01' + self.port.to_bytes(2, 'big') +
                        b'\x00\x00\x00\x01user\x00' + host + b'\x00')

            r = await self.take(end, 8)
            ok = r is not None and r[:2] == b'\x00\x5a'

        end.preamble = None
        return ok


class FwdServer(RecServer):
    def __init__(self, world, plan):
        super().__init__(world)
        self.plan = plan
        self.requests = []
        self.listen_requests = []

    def begin_auth(self, username):
        return True

    def connection_requested(self, dest_host, dest_port, orig_host,
                             orig_port):
        self.requests.append((dest_host, dest_port))

        for i in self.plan['app_refuses']:
            if [dest_host, dest_port] == DESTS[i] or \
                    (dest_host, dest_port) == (['10.0.0.5', '10.0.0.6'][i],
                                               DESTS[i][1]):
                return False

        upstream = getattr(self.world, 'upstream', None)

        if self.plan.get('jump') and upstream is not None:
            # tunnelled over the connection to the next hop
            return upstream

        return True

    def unix_connection_requested(self, dest_path):
        self.requests.append((dest_path, 0))

        for i in self.plan['app_refuses']:
            if dest_path == '/dest%d.sock' % i:
                return False

        return True

    def server_requested(self, listen_host, listen_port):
        self.listen_requests.append((listen_host, listen_port))
        return not self.plan['listen_refused']

    def unix_server_requested(self, listen_path):
        self.listen_requests.append((listen_path, 0))
        return not self.plan['listen_refused']


def permitted(plan, dest_idx, socks_ver=5):
    """Reference permission model (DESIGN.md A.8)"""

    opt = plan['key_option']

    if opt == 'no_pf':
        return False

    if plan['mode'] == 'local_unix':
        # permitopen restricts TCP destinations only
        return dest_idx not in plan['app_refuses']

    if plan['mode'] == 'socks' and opt.startswith('permitopen') and \
            socks_ver == 4:
        # SOCKS4 names the destination by address; permitopen="dest:80"
        # lists a host name
        return False

    if opt == 'permitopen_dest' and dest_idx != 0:
        return False

    if opt == 'permitopen_other' and dest_idx != 1:
        return False

    return dest_idx not in plan['app_refuses']


def run_plan(plan, sched_seed=None, sched_replay=None):
    world = World(plan, sched_seed, sched_replay)
    sim = world.sim
    net = sim.net
    mode = plan['mode']
    net.dns['dest'] = ['10.0.0.5']
    net.dns['other'] = ['10.0.0.6']
    net.rdns['10.0.0.5'] = 'dest'
    origins, targets = [], []
    owners = {'s': None}
    res = {'listener_error': None, 'conn': None, 'listener': None}
    wire = []
    remote = mode in ('remote', 'remote_unix')

    def arm_cut():
        # (the link that is cut is the one between client and server)
        if plan['cut']:
            c = plan['cut']

            def on_connection(conn):
                if not wire:
                    wire.append(CutWire(conn, c['dir'], c['index'],
                                        c.get('off', 0), c['how']))

            net.on_connection = on_connection

    opt = {'none': '', 'permitopen_dest': 'permitopen="dest:80" ',
           'permitopen_other': 'permitopen="other:81" ',
           'permitopen_both': 'permitopen="dest:80",permitopen="other:81" ',
           'no_pf': 'no-port-forwarding '}[plan['key_option']]
    auth_keys = asyncssh.import_authorized_keys(
        opt + pubkey('user_ed25519').export_public_key('openssh').decode())

    def sfactory():
        owners['s'] = FwdServer(world, plan)
        return owners['s']

    def target_factory(didx):
        def make():
            # one destination endpoint per accepted connection; which plan
            # entry it belongs to is settled by arrival order per dest
            k = len([t for t in targets if t.didx == didx])
            cands = [i for i, cc in enumerate(plan['conns'])
                     if cc['dest'] == didx]
            ci = cands[k] if k < len(cands) else None
            prog = plan['conns'][ci]['target'] if ci is not None else []
            e = End(world, 'T%d.%d' % (didx, k), prog,
                    't2o.%d.%d' % (didx, k))
            e.didx = didx
            e.k = k
            e.close_on_eof = True
            targets.append(e)
            return e

        return make

    async def main():
        loop = sim.loop
        acc = await asyncssh.listen(
            '127.0.0.1', 22, server_factory=sfactory,
            authorized_client_keys=auth_keys,
            **server_opts(window=plan['window']))

        # destination applications
        if mode == 'remote':
            # remote forwarding delivers to destinations near the client
            tsrv = [await loop.create_server(target_factory(i),
                                             ['10.0.0.5', '10.0.0.6'][i],
                                             DESTS[i][1]) for i in (0, 1)]
        elif mode in ('local_unix', 'remote_unix'):
            tsrv = [await loop.create_unix_server(target_factory(i),
                                                  '/dest%d.sock' % i)
                    for i in (0, 1)]
        else:
            tsrv = [await loop.create_server(target_factory(i),
                                             ['10.0.0.5', '10.0.0.6'][i],
                                             DESTS[i][1]) for i in (0, 1)]

        up_acc = None

        if plan.get('jump'):
            class UpServer(RecServer):
                def connection_requested(self, dest_host, dest_port,
                                         orig_host, orig_port):
                    return True

            up_acc = await asyncssh.listen(
                '127.0.0.2', 22,
                server_factory=lambda: UpServer(world, name='upstream'),
                **server_opts(window=plan['window']))
            world.upstream = await asyncssh.connect('127.0.0.2', 22,
                                                    **client_opts())
            sim.probes['via_jump_host'] += 1

        arm_cut()

        try:
            conn = await asyncssh.connect(
                '127.0.0.1', 22,
                **client_opts(client_keys=[key('user_ed25519')]))
        except (asyncssh.Error, OSError) as exc:
            res['connect_error'] = exc
            await world.gate('done')
            acc.close()

            if up_acc is not None:
                world.upstream.close()
                up_acc.close()

            return

        res['conn'] = conn
        listeners = {}

        async def start_origin(ci, c, eager=False):
            for _ in range(0 if eager else c['delay']):
                await sim.pause('origin-delay')

            didx = c['dest']
            pre = None

            if mode == 'socks':
                pre = Socks(c['socks_ver'], DESTS[didx][0], DESTS[didx][1])

            prog = list(c['origin'])

            if c['early_gone']:
                # leave while the channel open is (probably) still in flight
                prog = [['w', 10], [sim_choice(ci)]]
                sim.probes['origin_gone_during_open'] += 1

            e = End(world, 'O%d' % ci, prog, 'o2t.%d' % ci, pre)
            e.didx = didx
            e.ci = ci
            origins.append(e)

            try:
                if mode == 'local':
                    await loop.create_connection(lambda: e, '127.0.0.1',
                                                 7000 + didx)
                elif mode == 'socks':
                    await loop.create_connection(lambda: e, '127.0.0.1',
                                                 1080)
                elif mode == 'local_unix':
                    await loop.create_unix_connection(
                        lambda: e, '/listen%d.sock' % didx)
                elif mode == 'remote_unix':
                    await loop.create_unix_connection(
                        lambda: e, '/rlisten%d.sock' % didx)
                elif eager:
                    # already knocking while the listener is being set up:
                    # the first connection is there as soon as the server
                    # listens, before the client knows it was granted
                    for _ in range(400):
                        try:
                            await loop.create_connection(
                                lambda: e, '127.0.0.1', 8000 + didx)
                            sim.probes['connected_behind_the_grant'] += 1
                            break
                        except ConnectionRefusedError:
                            await sim.pause('eager-origin')
                    else:
                        raise ConnectionRefusedError('never listening')
                else:
                    await loop.create_connection(
                        lambda: e, '127.0.0.1',
                        listeners[didx].get_port() if plan.get('dyn_ports')
                        and didx in listeners else 8000 + didx)
            except OSError as exc:
                e.connect_error = exc
                e.lost_seen = True

        def sim_choice(ci):
            return 'abort' if ci % 2 else 'close'


        eager_started = set()

        if plan.get('eager') and mode == 'remote' and \
                not plan.get('dyn_ports') and plan['conns'] and \
                not plan['conns'][0]['early_gone']:
            eager_started.add(0)
            sim.track('origin0', start_origin(0, plan['conns'][0], True))

        try:
            if mode == 'local':
                for i in (0, 1):
                    listeners[i] = await conn.forward_local_port(
                        '127.0.0.1', 7000 + i, DESTS[i][0], DESTS[i][1])
            elif mode == 'socks':
                listeners[0] = listeners[1] = await conn.forward_socks(
                    '127.0.0.1', 1080)
            elif mode == 'local_unix':
                for i in (0, 1):
                    listeners[i] = await conn.forward_local_path(
                        '/listen%d.sock' % i, '/dest%d.sock' % i)

                if plan.get('dup_listen'):
                    # the same path once more: refused (as a TCP port in
                    # use is), or at least not left behind
                    sim.probes['duplicate_listen_request'] += 1

                    try:
                        res['dup'] = await conn.forward_local_path(
                            '/listen0.sock', '/dest0.sock')
                    except (asyncssh.Error, OSError) as exc:
                        res['dup_error'] = exc
            elif mode == 'remote_unix':
                for i in (0, 1):
                    listeners[i] = await conn.forward_remote_path(
                        '/rlisten%d.sock' % i, '/dest%d.sock' % i)

                if plan.get('dup_listen'):
                    # a second request for a path that is being listened
                    # on already: refused, or at least not left behind
                    sim.probes['duplicate_listen_request'] += 1

                    try:
                        res['dup'] = await conn.forward_remote_path(
                            '/rlisten0.sock', '/dest0.sock')
                    except (asyncssh.Error, asyncssh.ChannelListenError,
                            OSError) as exc:
                        res['dup_error'] = exc
            else:
                for i in (0, 1):
                    # dyn_ports: the server picks the ports; both listeners
                    # are on the same host
                    listeners[i] = await conn.forward_remote_port(
                        '127.0.0.1', 0 if plan.get('dyn_ports') else 8000 + i,
                        ['10.0.0.5', '10.0.0.6'][i], DESTS[i][1])

                if plan.get('dyn_ports'):
                    sim.probes['dynamic_listen_ports'] += 1
        except (asyncssh.Error, asyncssh.ChannelListenError, OSError) as exc:
            res['listener_error'] = exc

        res['listeners'] = listeners

        for ci, c in enumerate(plan['conns']):
            if ci not in eager_started:
                sim.track('origin%d' % ci, start_origin(ci, c))

        if mode == 'socks' and plan.get('socks_stuck') and \
                listeners.get(0) is not None:
            # a SOCKS client that never completes its request: it sends the
            # start of one and then hangs up its sending side, or just waits
            class Stuck(asyncio.Protocol):
                def __init__(self):
                    self.transport = None
                    self.gone = False

                def connection_made(self, transport):
                    self.transport = transport

                def eof_received(self):
                    self.gone = True
                    return False

                def connection_lost(self, exc):
                    self.gone = True

            stuck = res['stuck'] = Stuck()

            try:
                await loop.create_connection(lambda: stuck, '127.0.0.1',
                                             1080)
                stuck.transport.write(b'\x05\x01')
                sim.probes['socks_request_never_completed'] += 1

                if plan['socks_stuck'] == 'fin':
                    stuck.transport.write_eof()
            except OSError:
                res['stuck'] = None

        if plan.get('bad_dest'):
            async def bad_dest():
                bd = plan['bad_dest']

                for _ in range(bd.get('delay', 0)):
                    await sim.pause('bad-dest')

                sim.probes['destination_resolver_rejects'] += 1

                try:
                    _r, w = await conn.open_connection(bd['host'], bd['port'])
                    w.close()
                    res['bad_dest'] = 'opened'
                except (asyncssh.Error, OSError) as exc:
                    res['bad_dest'] = exc

            sim.track('bad-dest', bad_dest())

        if plan.get('late_dup') and listeners.get(0) is not None and \
                not plan.get('dyn_ports'):
            async def late_dup():
                for _ in range(plan['late_dup']['delay']):
                    await sim.pause('late-dup')

                sim.probes['duplicate_listen_while_relaying'] += 1

                try:
                    if mode == 'remote':
                        res['late_dup'] = await conn.forward_remote_port(
                            '127.0.0.1', 8000, '10.0.0.6', DESTS[1][1])
                    else:
                        res['late_dup'] = await conn.forward_remote_path(
                            '/rlisten0.sock', '/dest1.sock')
                except (asyncssh.Error, asyncssh.ChannelListenError,
                        OSError) as exc:
                    res['late_dup_error'] = exc

            sim.track('late-dup', late_dup())

        if plan.get('lclose2') and listeners.get(0) is not None:
            async def close_twice():
                # the listener is closed while connections are being
                # relayed, and closed again (as leaving an `async with`
                # block after an explicit close() does): existing
                # connections stay up, and so does the SSH connection
                for _ in range(plan['lclose2']):
                    await sim.pause('listener-close')

                sim.probes['listener_closed_twice'] += 1
                listeners[0].close()
                listeners[0].close()

            sim.track('close-twice', close_twice())

        await world.gate('io-done')

        # everything still open is closed from the origin side now
        for e in origins:
            if e.transport is not None and not e.lost_seen:
                e.transport.close()

        await world.gate('closed')
        conn.close()
        await conn.wait_closed()
        await world.gate('done')
        acc.close()
        await acc.wait_closed()

        if up_acc is not None:
            world.upstream.close()
            await world.upstream.wait_closed()
            up_acc.close()
            await up_acc.wait_closed()

        for s in tsrv:
            s.close()

    world.start(main())
    world.run_phase()
    conn = res['conn']
    cut_fired = bool(wire and wire[0].fired)

    if cut_fired:
        sim.probes['ssh_cut'] += 1

    sim.probes['mode_' + mode] += 1

    if len(plan['conns']) > 1:
        sim.probes['multi_conn'] += 1

    if res.get('stuck') is not None and plan.get('socks_stuck') == 'fin' \
            and not res['stuck'].gone and not cut_fired and \
            not sim.loop.capped:
        # its request can never be completed any more: nothing is left that
        # this socket could be kept for
        world.violation(
            'socket-left-open', 'a SOCKS client shut down its sending side '
            'in the middle of its request; the listener\'s socket for it is '
            'still open at the quiescent point', sig='socks-fin')

    if plan.get('lclose2') and conn is not None and not cut_fired and \
            not sim.loop.capped and conn.is_closed():
        world.violation('connection-dropped', 'closing a remote listener '
                        'twice ended the SSH connection (%r)' %
                        ([repr(x) for x in getattr(res.get('owner'), 'lost',
                                                   [])],),
                        sig='listener-closed-twice')

    # -- listen requests -------------------------------------------------------------
    if remote and conn is not None and not cut_fired:
        want_listen = plan['key_option'] != 'no_pf' and \
            not plan['listen_refused']
        got_listen = res['listener_error'] is None and \
            len(res.get('listeners', {})) == 2

        if want_listen != got_listen:
            world.violation(
                'listen-permission',
                'remote listen request: model says %s, outcome %s (%r); '
                'key option %r, app refuses listen: %s' %
                ('granted' if want_listen else 'refused',
                 'granted' if got_listen else 'refused',
                 res['listener_error'], plan['key_option'],
                 plan['listen_refused']))

        if not want_listen:
            sim.probes['listen_refused'] += 1

    # -- per connection oracles (fault-free part) ------------------------------------
    def pair_for(o):
        ts = [t for t in targets if t.didx == o.didx]
        same = [x for x in origins if x.didx == o.didx]

        # destination endpoints appear in the order connections reach the
        # destination; with several origins per destination the pairing is
        # recovered from the unique stream tags instead
        for t in ts:
            if bytes(t.recv[:8]) and bytes(t.recv[:8]) == \
                    gen_bytes(o.tag, 0, len(t.recv[:8])):
                return t

        if len(same) == 1 and len(ts) == 1:
            return ts[0]

        return None

    if not cut_fired and conn is not None and not sim.loop.capped:
        for o in origins:
            c = plan['conns'][o.ci]
            allowed = permitted(plan, o.didx, c['socks_ver']) if not remote else \
                (plan['key_option'] != 'no_pf' and
                 not plan['listen_refused'])

            if getattr(o, 'connect_error', None) is not None:
                if plan.get('lclose2') and o.didx == 0:
                    # (the scenario closed this listener itself)
                    continue

                if allowed and not c['early_gone'] and \
                        res['listener_error'] is None:
                    world.violation('forward-refused', 'origin %d could not '
                                    'connect to the listener: %r' %
                                    (o.ci, o.connect_error))
                continue

            t = pair_for(o)

            if not allowed:
                sim.probes['refused_by_policy'] += 1

                if t is not None and len(t.recv):
                    world.violation(
                        'forwarded-without-permission',
                        'data of origin %d reached destination %r although '
                        'key option %r / application policy forbid it' %
                        (o.ci, DESTS[o.didx], plan['key_option']),
                        sig=plan['key_option'])

                if not o.lost_seen and not o.eof:
                    world.violation(
                        'refused-not-closed', 'forwarding for origin %d was '
                        'refused by policy but its socket was neither '
                        'closed nor given EOF' % o.ci)

                continue

            if c['early_gone'] or mode == 'socks' and o.preamble is not None:
                continue

            same = [x for x in origins if x.didx == o.didx]

            if t is None and len(same) > 1:
                # several origins share this destination and this one could
                # not be told apart by its data: no verdict
                continue

            first_gone = bool(c['origin']) and \
                c['origin'][0][0] in ('close', 'abort')

            if t is None:
                if plan.get('lclose2') and o.didx == 0:
                    # a connection still being set up when its listener is
                    # closed may be turned away
                    continue

                if o.sent and not o.closed_locally:
                    world.violation(
                        'not-forwarded', 'origin %d wrote %d bytes but no '
                        'destination connection carried them (allowed by '
                        'policy)' % (o.ci, o.sent))
                continue

            # origin -> target
            want = gen_bytes(o.tag, 0, o.sent)
            got = bytes(t.recv)

            if got != want[:len(got)]:
                world.violation(
                    'relay-corrupt', 'origin %d -> destination: first '
                    'difference at %d of %d delivered' %
                    (o.ci, first_diff(got, want), len(got)), sig='o2t')
            elif len(got) < len(want) and not o.closed_locally == 'abort' \
                    and not t.closed_locally and not t.lost_seen:
                world.violation(
                    'relay-short', 'origin %d wrote %d bytes, destination '
                    'got %d and nobody closed early (origin end: %r)' %
                    (o.ci, len(want), len(got), o.closed_locally),
                    sig='o2t')

            # target -> origin
            want = gen_bytes(t.tag, 0, t.sent)
            got = bytes(o.recv)

            if got != want[:len(got)]:
                world.violation(
                    'relay-corrupt', 'destination -> origin %d: first '
                    'difference at %d of %d delivered' %
                    (o.ci, first_diff(got, want), len(got)), sig='t2o')
            elif len(got) < len(want) and not t.closed_locally == 'abort' \
                    and not o.closed_locally and not o.lost_seen:
                world.violation(
                    'relay-short', 'destination wrote %d bytes, origin %d '
                    'got %d and nobody closed early' %
                    (len(want), o.ci, len(got)), sig='t2o')

            # half-close propagation
            if o.sent_eof and not o.closed_locally and \
                    not t.closed_locally and not t.eof and not t.lost_seen:
                world.violation('eof-not-propagated', 'origin %d sent EOF, '
                                'destination never saw it' % o.ci, sig='o2t')

            if t.sent_eof and not t.closed_locally and \
                    not o.closed_locally and not o.eof and not o.lost_seen:
                world.violation('eof-not-propagated', 'destination sent EOF, '
                                'origin %d never saw it' % o.ci, sig='t2o')

            # closing either end closes both
            if o.closed_locally and not t.lost_seen and not t.eof:
                world.violation('close-not-propagated', 'origin %d %sed its '
                                'socket, destination socket still open' %
                                (o.ci, o.closed_locally),
                                sig='early_gone' if first_gone else 'o2t')

            if t.closed_locally and not o.lost_seen and not o.eof:
                world.violation('close-not-propagated', 'destination %sed, '
                                'origin %d socket still open' %
                                (t.closed_locally, o.ci), sig='t2o')

            if o.closed_locally == 'abort':
                sim.probes['origin_abort'] += 1

            if t.closed_locally:
                sim.probes['dest_close_first'] += 1

            if o.sent and c['delay'] == 0:
                sim.probes['early_data'] += 1

    # -- phase 2: origins close, then nothing relayed may remain --------------------
    hung1 = [h for h in sim.hung() if h != 'main']

    if hung1 and not sim.loop.capped and not world.violations:
        world.violation('hang', 'never completed: %r' % hung1[:5],
                        sig=hung1[0].split('-')[0])

    if not sim.loop.capped:
        world.open_gate('io-done')
        world.run_phase()

    if not cut_fired and conn is not None and not sim.loop.capped and \
            not world.violations:
        # every origin is closed now: all destination sockets must be too
        left = [t.name for t in targets if not t.lost_seen and not t.eof]

        if left:
            world.violation(
                'socket-left-open',
                'all origin sockets are closed but destination socket(s) %r '
                'are still open without EOF (early_gone=%r)' %
                (left, [c['early_gone'] for c in plan['conns']]),
                sig='early_gone' if any(c['early_gone']
                                        for c in plan['conns']) else 'close')

        for label, cn in sorted(sim.conns.items()):
            if cn._channels and not world.violations:
                world.violation(
                    'channel-left-open', '%s still has %d forwarding '
                    'channel(s) after every relayed socket was closed' %
                    (label, len(cn._channels)),
                    sig='early_gone' if any(c['early_gone']
                                            for c in plan['conns'])
                    else 'close')

    if not sim.loop.capped:
        world.open_gate('closed')
        world.run_phase()

    # -- SSH connection ended: no listener, no relayed transport --------------------
    if not sim.loop.capped:
        own = {('127.0.0.1', 22), ('127.0.0.2', 22), ('10.0.0.5', 80),
               ('10.0.0.6', 81),
               '/dest0.sock', '/dest1.sock'}
        left = [k for k in net.listeners if k not in own]
        left += ['%s (re-bound, first listener)' % srv._keys[0]
                 for srv in net.orphaned if srv.is_serving()]

        if left:
            world.violation('listener-residue', 'listeners still bound '
                            'after the SSH connection ended: %r' %
                            sorted(map(str, left)))

        open_t = [t for t in net.transports if not t._closed and
                  not isinstance(t._protocol, End)]
        open_e = [e.name for e in origins + targets
                  if e.transport is not None and not e.lost_seen and
                  not e.eof]

        if open_e and not world.violations:
            world.violation('socket-residue', 'relayed sockets still open '
                            'after the SSH connection ended: %r' % open_e)

        stuck = res.get('stuck')

        if stuck is not None and not stuck.gone and not world.violations:
            world.violation(
                'socket-residue', 'a socket accepted by the SOCKS listener '
                'whose request was never completed (%s) is still open after '
                'the SSH connection ended' % plan['socks_stuck'],
                sig='socks-' + plan['socks_stuck'])

        hung = [h for h in sim.hung() if h != 'main']

        if hung and not world.violations:
            world.violation('hang', 'never completed: %r' % hung[:5],
                            sig=hung[0].split('-')[0])

        world.open_gate('done')
        world.run_phase()

    world.check_loop_health(allow_hang=True, loop_errors=False,
                            internal_errors=True)
    carried = sum(len(t.recv) for t in targets) + \
        sum(len(o.recv) for o in origins)
    sample = {'mode': mode, 'key_option': plan['key_option'],
              'app_refuses': plan['app_refuses'], 'cut': plan['cut'],
              'conns': [{'dest': c['dest'], 'origin': c['origin'][:6],
                         'target': c['target'][:6],
                         'early_gone': c['early_gone']}
                        for c in plan['conns']],
              'bytes_relayed': carried,
              'dest_connections': len(targets)}
    return world.result(nontrivial=carried > 0 or
                        sim.probes.get('refused_by_policy', 0) > 0,
                        sample=sample)
