"""C19 -- stream and process APIs deliver what was sent, split as asked."""

import asyncio
import errno
import os
import re
import shutil
import tempfile

import asyncssh

from simkit.world import World, RecClient, RecServer, client_opts, \
    server_opts

ID = 'C19'
NAME = 'streams'
QUICK_S = 45
THOROUGH_S = 900
CHUNK = 40

RULE = ('A server-side process handler writes drawn stdout/stderr streams '
        '(bytes or UTF-8 text over an alphabet that contains the separators '
        'and multi-byte characters) in drawn chunks and then exits with a '
        'status or signal; the client side writes a drawn stdin stream. '
        'reader mode: each stream is consumed by a drawn program of read(n), '
        'read(), readexactly(n), readline(), readuntil(single / several / '
        'regex separators), ending with read-to-EOF or `async for` over the '
        'remaining lines, with window and max packet size from 1 byte up '
        'so that separators and characters straddle packets; a sequential '
        'reference reader over the total stream, independent of chunking, '
        'gives the expected result of every call; a program may also hold '
        'a read the caller gives up on after a drawn number of events (it '
        'must consume nothing), a consumer that sleeps before it reads, a '
        'server that hangs up once the command is done, and a command that '
        'forwards two local sources (one of them slow) through a small send '
        'buffer instead of writing itself. run mode: conn.run()/ '
        'communicate()/wait() must return the complete stdout and stderr '
        'together with the exit status or signal. redirect mode: stdout to a '
        'file / file object / DEVNULL / StreamWriter / async file / another '
        'process\'s stdin / stdout, stdin from a file / StreamReader / async '
        'file / another process: all data then EOF; the output of two '
        'commands concatenated into a third with recv_eof=False set up after '
        'a drawn delay; a redirect switched to a second target while data '
        'flows; a target that fails after a drawn number of writes (the '
        'call must still return and the connection survive). A further '
        'population types lines and Ctrl-D at a terminal with the line '
        'editor on: a model over the lines and the soft EOFs between them '
        'gives the result of each call on the command\'s stdin. No '
        'connection may end with an exception escaped from the library. '
        'drain() must return under backpressure and raise once '
        'the channel is gone. The scheduler decides segmentation, delivery '
        'order and reader/writer interleaving. Non-trivial = at least one '
        'read call on a non-empty stream; distinct = (plan, schedule, trace) '
        'signature.')

ASSUMPTIONS = [
    'simulated event loop admits exactly asyncio-legal executions',
    'separator sets where one separator is a prefix of another are not '
    'generated (which match is "first" is then undocumented)',
    'when a readuntil() gives up because the receive buffer reached its '
    'limit, IncompleteReadError with the buffered data is accepted provided '
    'no unit is lost or repeated (the error type is not documented) and the '
    'partial is not empty (an empty result is the end-of-file indication)',
    'redirection to OS pipes, sockets given as file descriptors and TTYs '
    'needs a real selector loop and is not simulated',
]

REAL = ['asyncssh stream.py (SSHReader/SSHWriter/SSHStreamSession), '
        'process.py (SSHClientProcess/SSHServerProcess, redirection), '
        'channel, connection of both endpoints']
STUB = ['event loop + clock', 'TCP', 'executor', 'OS randomness']
PROBES = ['merged_into_file', 'redirect_sends_eof', 'held_back_by_redirect_target', 'closed_while_source_feeds', 'server_hung_up_at_once', 'collect_output_polled', 'signal_in_stream', 'mode_editor', 'soft_eof_ended_a_call', 'redirect_target_failed', 'server_side_redirect', 'redirect_switched', 'redirect_concat', 'read_cancelled', 'async_iteration', 'mode_reader', 'mode_run', 'mode_redirect', 'text_mode',
          'tiny_packets', 'readuntil_multi', 'readuntil_regex',
          'incomplete_read_at_eof', 'limit_overrun', 'exit_signal',
          'exit_status', 'redirect_process', 'redirect_file',
          'redirect_stream', 'redirect_async_file',
          'drain_on_redirected_stream', 'server_hung_up_after_close']

ALPHA_B = [b'a', b'b', b'c', b'\n', b'\n', b';', b',', b'\r', b'x', b'::']
ALPHA_T = ['a', 'b', '\n', '\n', ';', ',', '\r', 'é', '€', '😀', '::', 'ß']
SEPS = [['\n'], [';'], ['::'], ['\r\n'], [';', ','], ['\n', '::'],
        ['re', '\r?\n', 2], ['re', '[;,]', 1], ['re', 'a+b', 40]]

_base = [None]


def new_dir():
    if _base[0] is None:
        root = '/dev/shm' if os.path.isdir('/dev/shm') else None
        _base[0] = tempfile.mkdtemp(prefix='verif_c19_', dir=root)
        import atexit
        atexit.register(shutil.rmtree, _base[0], True)

    return tempfile.mkdtemp(dir=_base[0])


def gen_stream(rng, text, n):
    alpha = ALPHA_T if text else ALPHA_B
    return [rng.below(len(alpha)) for _ in range(n)]


def render(idx, text):
    if text:
        return ''.join(ALPHA_T[i] for i in idx)

    return b''.join(ALPHA_B[i] for i in idx)


TARGETS = ['file', 'devnull', 'process', 'stdin_file', 'stream_out',
           'stream_in', 'process_in', 'afile_out', 'afile_in',
           'stderr_stdout', 'fileobj_out', 'drain_redirected', 'concat',
           'switch']


def gen_chunks(rng, total):
    out = []

    while total > 0:
        n = min(total, rng.choice([1, 1, 2, 3, 7, 20, 100]))
        out.append(n)
        total -= n

    return out


def gen_prog(rng):
    prog = []

    if rng.chance(25):
        # a slow consumer: nothing is read for a good while
        prog.append(['z', rng.choice([5, 20, 60])])

    for _ in range(rng.between(1, 12)):
        k = rng.weighted([('read', 30), ('exactly', 15), ('line', 15),
                          ('until', 25), ('y', 15), ('cancel', 8)])

        if k == 'cancel':
            # a read the caller gives up on (wait_for with a timeout): if
            # it is cancelled before it completes it must consume nothing
            inner = rng.choice([['read', rng.choice([5, 100, 70000])],
                                ['exactly', rng.choice([2, 5, 17, 64, 300])],
                                ['exactly', rng.choice([64, 300])],
                                ['until', rng.choice(SEPS)], ['line'],
                                ['readall']])
            prog.append(['cancel', inner, rng.choice([0, 1, 2, 4, 8, 20])])
        elif k == 'read':
            prog.append(['read', rng.choice([1, 2, 3, 5, 16, 100, 70000])])
        elif k == 'exactly':
            prog.append(['exactly', rng.choice([0, 1, 2, 5, 17, 64, 300])])
        elif k == 'until':
            prog.append(['until', rng.choice(SEPS)])
        else:
            prog.append([k])

    # the rest of the stream: everything at once, or line by line through
    # the reader's async iterator
    if rng.chance(30):
        # ... or falls behind at the end, when the last data, EOF, exit
        # status and close are arriving
        prog.append(['z', rng.choice([5, 20, 60])])

    prog.append(['readall'] if rng.chance(75) else ['aiter'])
    return prog


def gen_plan(rng):
    if rng.chance(8):
        # input typed at a terminal, with soft EOFs (checks/c19_softeof.py)
        from . import c19_softeof
        return c19_softeof.gen_plan(rng)

    mode = rng.weighted([('reader', 60), ('run', 20), ('redirect', 20)])
    text = rng.chance(40)
    n_out = rng.choice([0, 1, 5, 40, 200, 600])
    n_err = rng.choice([0, 0, 3, 50])
    n_in = rng.choice([0, 2, 30, 300])
    collect_poll = mode == 'reader' and rng.chance(12)

    if collect_poll:
        # (every poll is an event of its own: keep the run short)
        n_in = min(n_in, 30)
        n_out = min(n_out, 200)
    plan = {
        'drbg': rng.below(1 << 30),
        'profile': {'p_sched': rng.choice([0, 30, 70, 95]),
                    'p_chunk': rng.choice([10, 50, 90]),
                    'latency_ms': rng.choice([0, 0, 2]), 'capacity': 0},
        'mode': mode, 'text': text,
        'window': rng.choice([1, 4, 16, 64, 1000, 2097152]),
        'pktsize': rng.choice([1, 2, 3, 7, 64, 32768]),
        'out': gen_stream(rng, text, n_out),
        'err': gen_stream(rng, text, n_err),
        'inp': gen_stream(rng, text, n_in),
        'out_chunks': None, 'err_chunks': None, 'in_chunks': None,
        'exit': rng.choice([['status', 0], ['status', 3], ['signal', 'TERM'],
                            ['none']]),
        'prog_out': gen_prog(rng), 'prog_err': gen_prog(rng),
        'prog_in': gen_prog(rng),
        'drain': rng.chance(40),
        # the server drops the connection as soon as the command's channel
        # is closed from both sides (the client may still hold unread data)
        'srv_hangup': rng.chance(20),
        # ... without waiting for the channel to close: output, exit status,
        # CLOSE and DISCONNECT leave in one burst
        'hangup_at_once': rng.chance(50),
        # reader mode: stderr goes to a slow (asynchronous) file whose queue
        # fills up and holds the channel back, while stdout is read with
        # the drawn calls
        'err_slow_file': rng.choice([0, 0, 0, 0, 0, 1, 3, 8]),
        # server-side redirect: EOF is sent by the redirect itself (the
        # default) -- when the last of the two sources has ended
        'srv_send_eof': rng.chance(50),
        # the command forwards two local sources instead of writing itself
        'srv_redirect': mode in ('reader', 'run') and rng.chance(15),
        'collect_poll': collect_poll,
        'pump_gap': [rng.choice([0, 0, 2, 10]), rng.choice([0, 3, 20, 60])],
        'pump_high': rng.choice([1, 8, 64, 65536]),
    }
    plan['out_chunks'] = gen_chunks(rng, n_out)
    plan['err_chunks'] = gen_chunks(rng, n_err)
    plan['in_chunks'] = gen_chunks(rng, n_in)

    if mode == 'redirect':
        plan['target'] = rng.choice(TARGETS)
        plan['late'] = rng.choice([0, 0, 3, 10, 40, 150])
        # the local target of an output redirect fails after this many
        # writes (reset by its far end / disk full)
        plan['target_fault'] = rng.choice([None, None, None, 0, 1, 3, 20]) \
            if plan['target'] in ('stream_out', 'afile_out', 'fileobj_out') \
            else None
        # the application closes the process while the source of its stdin
        # redirect still has data to give
        # stderr=STDOUT together with a file for stdout, set up `late`
        # events after the command was started (its output, and even its
        # EOF, may be there already)
        plan['merge_to_file'] = plan['target'] == 'stderr_stdout' and \
            rng.chance(50)
        plan['close_mid'] = rng.choice([None, None, 0, 1, 3, 10]) \
            if plan['target'] in ('stream_in', 'stdin_file') else None

    return plan


def valid_plan(plan):
    if plan.get('mode') == 'editor':
        from . import c19_softeof
        return c19_softeof.valid_plan(plan)

    try:
        if plan['mode'] not in ('reader', 'run', 'redirect') or \
                plan['window'] < 1 or plan['pktsize'] < 1:
            return False

        alpha = len(ALPHA_T if plan['text'] else ALPHA_B)

        for k in ('out', 'err', 'inp'):
            if any(not 0 <= i < alpha for i in plan[k]):
                return False

        for k, s in (('out_chunks', 'out'), ('err_chunks', 'err'),
                     ('in_chunks', 'inp')):
            if sum(plan[k]) != len(plan[s]) or any(c < 1 for c in plan[k]):
                return False

        for prog in (plan['prog_out'], plan['prog_err'], plan['prog_in']):
            # every stream has a consumer that reads it to EOF: the streams
            # of a session share one receive window, an unread one would
            # (legitimately) stall the others
            if not prog or prog[-1][0] not in ('readall', 'aiter'):
                return False

            for op in prog:
                if op[0] == 'cancel':
                    if len(op) != 3 or not 0 <= op[2] <= 200 or \
                            op[1][0] not in ('read', 'exactly', 'line',
                                             'until', 'readall'):
                        return False

                    op = op[1]

                if op[0] not in ('read', 'exactly', 'line', 'until', 'y',
                                 'z', 'readall', 'aiter'):
                    return False

                if op[0] == 'z' and (len(op) != 2 or
                                     not 0 <= op[1] <= 200):
                    return False

                if op[0] in ('read', 'exactly') and \
                        (len(op) != 2 or op[1] < 0 or
                         (op[0] == 'read' and op[1] == 0)):
                    return False

                if op[0] == 'until' and (len(op) != 2 or op[1] not in SEPS):
                    return False

        if plan['mode'] == 'redirect' and plan.get('target') not in TARGETS:
            return False

        if not 0 <= plan.get('late', 0) <= 300:
            return False

        tf = plan.get('target_fault')

        if tf is not None and (not 0 <= tf <= 1000 or plan.get('target')
                               not in ('stream_out', 'afile_out',
                                       'fileobj_out')):
            return False

        if plan.get('collect_poll') and (len(plan['inp']) > 30 or
                                         len(plan['out']) > 200):
            return False

        gap = plan.get('pump_gap', [0, 0])

        if len(gap) != 2 or any(not 0 <= g <= 200 for g in gap) or \
                not 1 <= plan.get('pump_high', 16) <= 1 << 20:
            return False

        return plan['exit'][0] in ('status', 'signal', 'none')
    except (KeyError, TypeError, IndexError):
        return False


# -- reference reader (DESIGN.md A.6) ---------------------------------------------------

class RefReader:
    def __init__(self, total, text, limit, other=0):
        self.s = total
        self.pos = 0
        self.text = text
        # the receive buffer limit is shared by the streams of a session:
        # unread data of the other stream counts towards it
        self.limit = max(0, limit - other)
        self.empty = '' if text else b''

    def rem(self):
        return self.s[self.pos:]

    def sep_pattern(self, spec):
        if spec[0] == 're':
            pat = spec[1] if self.text else spec[1].encode()
            return re.compile(pat)

        seps = [s if self.text else s.encode() for s in spec]
        bar = '|' if self.text else b'|'
        return re.compile(bar.join(re.escape(s) for s in seps))

    def check(self, op, result, exc):
        """Returns None if the outcome is what the model allows, else text.
           Advances the cursor by what was consumed."""

        rem = self.rem()
        kind = op[0]

        if kind == 'read':
            if exc is not None:
                return 'read(%d) raised %r' % (op[1], exc)

            if result != rem[:len(result)]:
                return 'read(%d) returned data not at the cursor' % op[1]

            if len(result) > op[1]:
                return 'read(%d) returned %d units' % (op[1], len(result))

            if not result and rem:
                return 'read(%d) returned nothing before EOF (%d units ' \
                    'remain)' % (op[1], len(rem))

            self.pos += len(result)
            return None

        if kind == 'readall':
            if exc is not None:
                return 'read() raised %r' % (exc,)

            if result != rem:
                return 'read() returned %d units, %d remain to EOF' % \
                    (len(result), len(rem))

            self.pos = len(self.s)
            return None

        if kind == 'aiter':
            # `async for line in reader`: the remaining lines, in order,
            # each through its newline (the last one as far as EOF), however
            # the data was chunked and whenever EOF became known
            if exc is not None:
                return 'async iteration raised %r' % (exc,)

            joined = self.empty.join(result)

            if joined != rem:
                return 'async iteration yielded %d units in all, %d remain ' \
                    'to EOF' % (len(joined), len(rem))

            if any(len(item) == 0 for item in result):
                return 'async iteration yielded an empty item (%d items, ' \
                    'last %r)' % (len(result), result[-1:])

            nl = '\n' if self.text else b'\n'
            want = rem.split(nl)
            want = [w + nl for w in want[:-1]] + ([want[-1]] if want[-1]
                                                  else [])
            self.pos = len(self.s)

            if result != want:
                if len(rem) + 4 >= self.limit:
                    return 'LIMIT'

                return 'async iteration split the stream into %d items, ' \
                    'the lines are %d' % (len(result), len(want))

            return None

        if kind == 'exactly':
            n = op[1]

            if len(rem) >= n:
                if exc is not None:
                    return 'readexactly(%d) raised %r with %d units ' \
                        'available' % (n, exc, len(rem))

                if result != rem[:n]:
                    return 'readexactly(%d) returned wrong data (%d units)' \
                        % (n, len(result))

                self.pos += n
                return None

            if not isinstance(exc, asyncio.IncompleteReadError):
                return 'readexactly(%d) with %d units to EOF: expected ' \
                    'IncompleteReadError, got %r / %r' % \
                    (n, len(rem), exc, result)

            if exc.partial != rem:
                return 'readexactly(%d): partial has %d units, %d remain' % \
                    (n, len(exc.partial), len(rem))

            self.pos = len(self.s)
            return None

        # line / until
        spec = ['\n'] if kind == 'line' else op[1]
        m = self.sep_pattern(spec).search(rem)

        if kind == 'line':
            want = rem[:m.end()] if m else rem

            if exc is not None:
                return 'readline() raised %r' % (exc,)

            if result != want:
                # buffer-limit give-up: readline() then returns what is
                # buffered, a (possibly empty) prefix without the newline
                if result == rem[:len(result)] and \
                        0 < len(result) < len(want) and \
                        len(result) + 4 >= self.limit:
                    self.pos += len(result)
                    return 'LIMIT'

                if not result and rem:
                    return 'readline() returned an empty result -- the ' \
                        'end-of-file indication -- with %d units still to ' \
                        'come' % len(rem)

                return 'readline() returned %d units, expected %d (through ' \
                    'the first newline)' % (len(result), len(want))

            self.pos += len(want)
            return None

        if m:
            want = rem[:m.end()]

            if exc is None:
                if result != want:
                    return 'readuntil(%r) returned %d units, expected %d ' \
                        '(through the first separator match)' % \
                        (spec, len(result), len(want))

                self.pos += len(want)
                return None

            if isinstance(exc, asyncio.IncompleteReadError) and \
                    exc.partial == rem[:len(exc.partial)] and \
                    0 < len(exc.partial) < len(want) and \
                    len(exc.partial) + 4 >= self.limit:
                self.pos += len(exc.partial)
                return 'LIMIT'

            return 'readuntil(%r) raised %r although a separator follows ' \
                'after %d units' % (spec, exc, len(want))

        if not isinstance(exc, asyncio.IncompleteReadError):
            return 'readuntil(%r) without separator before EOF: expected ' \
                'IncompleteReadError, got %r / %r' % (spec, exc, result)

        if exc.partial != rem[:len(exc.partial)]:
            return 'readuntil(%r): partial is not the data at the cursor' % \
                (spec,)

        if exc.partial != rem and len(exc.partial) + 4 < self.limit:
            return 'readuntil(%r): partial has %d of the %d units to EOF' % \
                (spec, len(exc.partial), len(rem))

        self.pos += len(exc.partial)
        return None if exc.partial == rem else 'LIMIT'


async def run_program(world, name, reader, prog, ref, sep_compile):
    """Execute a read program, checking each call against the model"""

    sim = world.sim
    ncalls = 0

    for op in prog:
        kind = op[0]

        if kind == 'y':
            await sim.pause('rd:' + name)
            continue

        if kind == 'z':
            for _ in range(op[1]):
                await sim.pause('rd:' + name)

            continue

        result = exc = None
        task = None

        async def call(o):
            if o[0] == 'read':
                return await reader.read(o[1])

            if o[0] == 'readall':
                return await reader.read()

            if o[0] == 'exactly':
                return await reader.readexactly(o[1])

            if o[0] == 'line':
                return await reader.readline()

            spec = o[1]

            if spec[0] == 're':
                pat = spec[1] if ref.text else spec[1].encode()
                sim.probes['readuntil_regex'] += 1
                return await reader.readuntil(re.compile(pat), spec[2])

            if len(spec) == 1:
                sep = spec[0] if ref.text else spec[0].encode()
                return await reader.readuntil(sep)

            seps = tuple(x if ref.text else x.encode() for x in spec)
            sim.probes['readuntil_multi'] += 1
            return await reader.readuntil(seps)

        if kind == 'cancel':
            # the caller waits for a while and then gives up on the call
            op, patience = op[1], op[2]
            kind = op[0]
            task = sim.loop.create_task(call(op), name='rd-cancel:' + name)

            for _ in range(patience):
                if task.done():
                    break

                await sim.pause('rd:' + name)

            if not task.done():
                task.cancel()

                try:
                    await task
                except asyncio.CancelledError:
                    pass

                # given up on: the stream is where it was
                sim.probes['read_cancelled'] += 1
                continue

        try:
            if task is not None:
                result = task.result()
            elif kind == 'aiter':
                result = []

                async for item in reader:
                    result.append(item)

                    if len(result) > 4 * len(ref.s) + 16:
                        # more items than units: the iterator is spinning
                        break

                sim.probes['async_iteration'] += 1
            else:
                result = await call(op)
        except asyncio.IncompleteReadError as e:
            exc = e
        except (asyncssh.Error, OSError) as e:
            exc = e

        ncalls += 1
        was_at = ref.pos
        verdict = ref.check(op, result, exc)

        if verdict == 'LIMIT':
            sim.probes['limit_overrun'] += 1
        elif verdict:
            if 'returned nothing before EOF' in verdict:
                sim.probes['empty_read_before_eof'] += 1

            world.violation(
                'stream-api-mismatch',
                '%s call #%d at offset %d of %d: %s (text=%s window=%d '
                'pktsize=%d)' % (name, ncalls, was_at, len(ref.s), verdict,
                                 ref.text, world.plan['window'],
                                 world.plan['pktsize']),
                sig=kind + (':empty' if 'returned nothing' in verdict
                            else ''))
            return ncalls

        if isinstance(exc, asyncio.IncompleteReadError) and \
                ref.pos == len(ref.s):
            sim.probes['incomplete_read_at_eof'] += 1

    return ncalls


def run_plan(plan, sched_seed=None, sched_replay=None):
    if plan.get('mode') == 'editor':
        from . import c19_softeof
        return c19_softeof.run_plan(plan, sched_seed, sched_replay)

    world = World(plan, sched_seed, sched_replay)
    sim = world.sim
    text = plan['text']
    enc = dict(encoding='utf-8') if text else dict(encoding=None)
    s_out, s_err, s_in = (render(plan[k], text) for k in ('out', 'err',
                                                          'inp'))
    mode = plan['mode']
    d = new_dir()
    res = {'calls': 0, 'result': None, 'exc': None, 'srv_in': None,
           'drain_exc': None, 'target_data': None}
    limit = plan['window']

    def pieces(s, idx, chunks):
        # chunk sizes are in alphabet symbols; symbols may be >1 unit long
        alpha = ALPHA_T if text else ALPHA_B
        out = []
        i = 0

        for n in chunks:
            part = idx[i:i + n]
            i += n
            out.append(('' if text else b'').join(alpha[j] for j in part))

        return out

    out_pieces = pieces(s_out, plan['out'], plan['out_chunks'])
    err_pieces = pieces(s_err, plan['err'], plan['err_chunks'])
    in_pieces = pieces(s_in, plan['inp'], plan['in_chunks'])

    async def server_process(process):
        """The remote command"""

        async def feed(writer, parts, name):
            for p in parts:
                try:
                    writer.write(p)
                except BrokenPipeError:
                    # (the client closed the channel: a command notices
                    # and stops)
                    return

                if plan['drain']:
                    try:
                        await writer.drain()
                    except (asyncssh.Error, OSError):
                        return

                if sim.tape.draw(2, 40):
                    await sim.pause('sw:' + name)

        cmd = process.command or ''

        if cmd == 'source':
            # first process of a stdin redirect: emits the input stream
            await feed(process.stdout, in_pieces, 'src')
            process.exit(0)
            return

        if cmd == 'sink':
            # second process of a redirect: collect stdin
            data = await process.stdin.read()
            res['target_data'] = data
            process.exit(0)
            return

        stdin_task = None

        if mode == 'reader':
            ref_in = RefReader(s_in, text, plan['srv_window'])
            stdin_task = sim.track(
                'srv-stdin', run_program(world, 'server.stdin',
                                         process.stdin, plan['prog_in'],
                                         ref_in, None))
        else:
            async def slurp():
                # run()/communicate() only close stdin when given non-empty
                # input, so a command fed nothing must not wait for EOF
                if mode == 'run' and not s_in:
                    res['srv_in'] = s_in
                    return

                res['srv_in'] = await process.stdin.read()

            stdin_task = sim.track('srv-stdin', slurp())

        if plan.get('srv_redirect') and cmd == 'cmd':
            # the command's output comes from two local sources (the pipes
            # of a job, say) redirected into the process, each filled at its
            # own pace
            sim.probes['server_side_redirect'] += 1
            ro, re_ = asyncio.StreamReader(), asyncio.StreamReader()
            # (a small send buffer, so that the client's window matters)
            process.channel.set_write_buffer_limits(
                high=plan.get('pump_high', 16))
            await process.redirect(stdout=ro, stderr=re_,
                                   send_eof=bool(plan.get('srv_send_eof')))

            if plan.get('srv_send_eof'):
                sim.probes['redirect_sends_eof'] += 1

            async def pump(rd, parts, name):
                gap = plan.get('pump_gap', [0, 0])[name == 'err']

                for p in parts:
                    # (a slow source leaves its forwarder waiting in read()
                    # while the other one fills the channel)
                    for _ in range(gap):
                        await sim.pause('pump:' + name)

                    rd.feed_data(p.encode('utf-8') if text else p)

                    if sim.tape.draw(2, 60):
                        await sim.pause('pump:' + name)

                for _ in range(gap):
                    await sim.pause('pump:' + name)

                rd.feed_eof()

            t1 = sim.track('srv-out', pump(ro, out_pieces, 'out'))
            t2 = sim.track('srv-err', pump(re_, err_pieces, 'err'))
            await t1
            await t2

            try:
                await process.stdout.drain()
                await process.stderr.drain()
            except (asyncssh.Error, OSError):
                pass
        else:
            t1 = sim.track('srv-out', feed(process.stdout, out_pieces,
                                           'out'))
            t2 = sim.track('srv-err', feed(process.stderr, err_pieces,
                                           'err'))
            await t1
            await t2

        # the command only exits once it has consumed its input (unless it
        # is one that never looks at it)
        if cmd != 'cmd-noin':
            await stdin_task

        ex = plan['exit']

        # (only where the command's channel is the only one in use)
        if plan.get('srv_hangup') and cmd == 'cmd' and \
                mode in ('reader', 'run'):
            sconn = process.get_extra_info('connection')

            async def hang_up():
                await process.wait_closed()
                sim.probes['server_hung_up_after_close'] += 1
                sconn.close()

            sim.track('srv-hangup', hang_up())

        if ex[0] == 'status':
            process.exit(ex[1])
        elif ex[0] == 'signal':
            process.exit_with_signal(ex[1], False, 'sig')
        else:
            process.stdout.write_eof()
            process.close()

        if plan.get('srv_hangup') and plan.get('hangup_at_once') and \
                cmd == 'cmd' and mode in ('reader', 'run') and \
                not process.channel.get_write_buffer_size():
            # (everything the command wrote has been handed to the
            # connection: a clean close sends it ahead of the disconnect)
            sim.probes['server_hung_up_at_once'] += 1
            process.get_extra_info('connection').close()

    plan['srv_window'] = plan['window']

    async def main():
        acc = await asyncssh.listen(
            '127.0.0.1', 22, server_factory=lambda: RecServer(world),
            process_factory=server_process,
            **server_opts(window=plan['window'],
                          max_pktsize=plan['pktsize'], **enc))
        owner = RecClient(world)
        res['owner'] = owner
        conn = await asyncssh.connect('127.0.0.1', 22,
                                      client_factory=lambda: owner,
                                      **client_opts())
        kw = dict(window=plan['window'], max_pktsize=plan['pktsize'], **enc)

        async def write_stdin(proc):
            for p in in_pieces:
                proc.stdin.write(p)

                if plan['drain']:
                    try:
                        await proc.stdin.drain()
                    except (asyncssh.Error, OSError) as exc:
                        res['drain_exc'] = exc
                        return

                if sim.tape.draw(2, 40):
                    await sim.pause('cw')

            proc.stdin.write_eof()

        try:
            if mode == 'reader' and plan.get('collect_poll'):
                # the caller never blocks in a read: it polls
                # collect_output() ("intended to be called instead of
                # read()") until the channel is closed
                proc = await conn.create_process('cmd', **kw)
                w = sim.track('cli-stdin', write_stdin(proc))
                closed = sim.track('cli-closed', proc.wait_closed())
                acc_o, acc_e = [], []
                polls = 0
                t0 = sim.loop.time()

                while True:
                    o, e = proc.collect_output()
                    acc_o.append(o)
                    acc_e.append(e)
                    polls += 1

                    if closed.done() or sim.loop.time() - t0 > 30:
                        # (half a minute without the network doing anything
                        # else: the output is not going to come)
                        break

                    # (a timer, not an event of the scheduler: whatever is
                    # in flight gets its turn between two polls)
                    await asyncio.sleep(0.01)

                empty = '' if text else b''
                res['collected'] = (empty.join(acc_o), empty.join(acc_e))
                sim.probes['collect_output_polled'] += 1
                await w
                res['result'] = (proc.exit_status, proc.exit_signal)
            elif mode == 'reader' and plan.get('err_slow_file'):
                class SlowFile:
                    def __init__(self):
                        self.written = []
                        self.closed = False
                        self.proc = None

                    async def write(self, data):
                        if self.proc is not None and \
                                self.proc._paused_write_streams:
                            sim.probes['held_back_by_redirect_target'] += 1

                        for _ in range(plan['err_slow_file']):
                            await sim.pause('slow-file')

                        self.written.append(data)

                    async def close(self):
                        self.closed = True

                sf = SlowFile()
                proc = await conn.create_process('cmd', stderr=sf, **kw)
                sf.proc = proc
                w = sim.track('cli-stdin', write_stdin(proc))
                res['calls'] = await sim.track('cli-out', run_program(
                    world, 'client.stdout', proc.stdout, plan['prog_out'],
                    RefReader(s_out, text, limit, 0), None))
                await w
                await proc.wait()
                res['result'] = (proc.exit_status, proc.exit_signal)
                res['slow_file'] = sf
            elif mode == 'reader':
                proc = await conn.create_process('cmd', **kw)
                w = sim.track('cli-stdin', write_stdin(proc))
                r1 = sim.track('cli-out', run_program(
                    world, 'client.stdout', proc.stdout, plan['prog_out'],
                    RefReader(s_out, text, limit, len(s_err)), None))
                r2 = sim.track('cli-err', run_program(
                    world, 'client.stderr', proc.stderr, plan['prog_err'],
                    RefReader(s_err, text, limit, len(s_out)), None))
                res['calls'] = (await r1) + (await r2)
                await w
                await proc.wait()
                res['result'] = (proc.exit_status, proc.exit_signal)
            elif mode == 'run':
                res['run'] = await conn.run('cmd', input=s_in, **kw)
            else:
                target = plan['target']
                path = os.path.join(d, 'target.bin')

                if target == 'file':
                    proc = await conn.create_process('cmd', stdout=path,
                                                     **kw)
                    await write_stdin(proc)
                    await proc.wait()
                    sim.probes['redirect_file'] += 1
                elif target == 'devnull':
                    proc = await conn.create_process(
                        'cmd', stdout=asyncssh.DEVNULL, **kw)
                    await write_stdin(proc)
                    await proc.wait()
                elif target == 'stdin_file':
                    raw = s_in.encode('utf-8') if text else s_in

                    if plan.get('close_mid') is not None:
                        # more than the channel takes at once, so that the
                        # file is still being read when the process closes
                        raw = (raw or b'x') * (3000 // max(len(raw), 1) + 1)

                    with open(path, 'wb') as f:
                        f.write(raw)

                    if plan.get('close_mid') is not None:
                        # (a small send buffer: the file reader is paused
                        # and resumed by window adjusts)
                        proc = await conn.create_process('cmd', **kw)
                        proc.channel.set_write_buffer_limits(high=64, low=16)
                        await proc.redirect_stdin(path, bufsize=128)
                    else:
                        proc = await conn.create_process('cmd', stdin=path,
                                                         **kw)

                    if plan.get('close_mid') is not None:
                        for _ in range(plan['close_mid']):
                            await sim.pause('close-mid')

                        sim.probes['closed_while_source_feeds'] += 1
                        res['closed_mid'] = True
                        proc.close()
                        await proc.wait_closed()
                        res['run'] = 'n/a'
                    else:
                        res['run'] = await proc.wait()

                    sim.probes['redirect_file'] += 1
                elif target == 'fileobj_out':
                    class FullDisk:
                        """A file whose disk is full after a few writes"""

                        def __init__(self, f, left):
                            self.f, self.left = f, left

                        def write(self, data):
                            if self.left <= 0:
                                res['file_failed'] = True
                                raise OSError(errno.ENOSPC, 'disk full')

                            self.left -= 1
                            return self.f.write(data)

                        def fileno(self):
                            return self.f.fileno()

                        def close(self):
                            self.f.close()

                    with open(path, 'wb') as fobj:
                        tf = plan.get('target_fault')

                        if tf is not None:
                            sim.probes['redirect_target_failed'] += 1

                        proc = await conn.create_process(
                            'cmd', stdout=fobj if tf is None
                            else FullDisk(fobj, tf), **kw)
                        await write_stdin(proc)
                        res['run'] = await proc.wait()

                    sim.probes['redirect_file'] += 1
                elif target == 'stderr_stdout' and plan.get('merge_to_file'):
                    proc = await conn.create_process('cmd', **kw)
                    w = sim.track('cli-stdin', write_stdin(proc))

                    for _ in range(plan.get('late', 0)):
                        await sim.pause('late-redirect')

                    await proc.redirect(stdout=path, stderr=asyncssh.STDOUT)
                    sim.probes['merged_into_file'] += 1
                    await w
                    await proc.wait()

                    with open(path, 'rb') as f:
                        raw = f.read()

                    res['merged'] = raw.decode('utf-8') if text else raw
                elif target == 'stderr_stdout':
                    proc = await conn.create_process(
                        'cmd', stderr=asyncssh.STDOUT, **kw)
                    w = sim.track('cli-stdin', write_stdin(proc))
                    res['merged'] = await proc.stdout.read()
                    await w
                    await proc.wait()
                elif target == 'drain_redirected':
                    # stdin is fed from a source that never ends; the caller
                    # waits in drain() on it while the command exits
                    async def endless(reader, writer):
                        for piece in in_pieces:
                            writer.write(piece.encode('utf-8') if text
                                         else piece)

                        await reader.read()
                        writer.close()

                    srv = await asyncio.start_server(endless, '10.0.0.7',
                                                     9001)
                    rd, wr = await asyncio.open_connection('10.0.0.7', 9001)
                    proc = await conn.create_process('cmd-noin', stdin=rd,
                                                     **kw)

                    async def drain_it():
                        try:
                            await proc.stdin.drain()
                        except (asyncssh.Error, OSError):
                            pass

                    sim.track('redirected-drain', drain_it())
                    res['run'] = await proc.wait()
                    sim.probes['drain_on_redirected_stream'] += 1
                    await world.gate('settled')
                    wr.close()
                    srv.close()
                    await srv.wait_closed()
                elif target in ('stream_out', 'stream_in'):
                    got = {'data': b'', 'eof': False}

                    async def peer_side(reader, writer):
                        if target == 'stream_out' and \
                                plan.get('target_fault') is not None:
                            # the far end of the target goes away with a
                            # reset after a few reads
                            for _ in range(plan['target_fault']):
                                if not await reader.read(1):
                                    break

                            sim.probes['redirect_target_failed'] += 1
                            got['reset'] = True
                            writer.transport.abort()
                        elif target == 'stream_out':
                            got['data'] = await reader.read()
                            got['eof'] = True
                            writer.close()
                        else:
                            for piece in in_pieces:
                                writer.write(piece.encode('utf-8') if text
                                             else piece)

                                if sim.tape.draw(2, 40):
                                    await sim.pause('feeder')

                            writer.write_eof()
                            await reader.read()
                            writer.close()

                    srv = await asyncio.start_server(peer_side, '10.0.0.7',
                                                     9000)
                    rd, wr = await asyncio.open_connection('10.0.0.7', 9000)

                    if target == 'stream_out':
                        proc = await conn.create_process('cmd', stdout=wr,
                                                         **kw)
                        await write_stdin(proc)
                    else:
                        proc = await conn.create_process('cmd', stdin=rd,
                                                         **kw)

                    if target == 'stream_in' and \
                            plan.get('close_mid') is not None:
                        for _ in range(plan['close_mid']):
                            await sim.pause('close-mid')

                        sim.probes['closed_while_source_feeds'] += 1
                        res['closed_mid'] = True
                        proc.close()
                        await proc.wait_closed()
                        res['run'] = 'n/a'
                    else:
                        res['run'] = await proc.wait()

                    res['stream'] = got
                    sim.probes['redirect_stream'] += 1

                    # the far end must see EOF by itself: wait until the
                    # world is quiet before this side closes anything
                    await world.gate('settled')
                    wr.close()
                    srv.close()
                    await srv.wait_closed()
                elif target in ('afile_out', 'afile_in', 'switch'):
                    class AFile:
                        """File-like object with coroutine methods"""

                        def __init__(self, pieces):
                            self.pieces = list(pieces)
                            self.written = []
                            self.closed = False
                            self.failed = False

                        async def read(self, n):
                            await sim.pause('afile')

                            if not self.pieces:
                                return b''

                            piece = self.pieces.pop(0)

                            if len(piece) > n:
                                self.pieces.insert(0, piece[n:])
                                piece = piece[:n]

                            return piece

                        async def write(self, data):
                            await sim.pause('afile')
                            fault = plan.get('target_fault')

                            if fault is not None and \
                                    len(self.written) >= fault:
                                # the disk under the target is full
                                sim.probes['redirect_target_failed'] += 1
                                self.failed = True
                                raise OSError(28, 'No space left on device')

                            self.written.append(bytes(data))
                            return len(data)

                        async def close(self):
                            self.closed = True

                    # (pieces re-inserted after a split are bytes already)
                    af = AFile([p.encode('utf-8') if text else p
                                for p in in_pieces])
                    if target == 'afile_out':
                        proc = await conn.create_process('cmd', stdout=af,
                                                         **kw)
                        await write_stdin(proc)
                    elif target == 'switch':
                        # the redirect is changed while data is flowing:
                        # a prefix goes to the first target, the rest to
                        # the second, both are closed
                        af2 = AFile([])
                        res['afile2'] = af2
                        proc = await conn.create_process('cmd', stdout=af,
                                                         **kw)
                        w = sim.track('cli-stdin', write_stdin(proc))

                        for _ in range(plan.get('late', 0)):
                            await sim.pause('switch-redirect')

                        if proc.is_closing():
                            # (too late: redirecting the output of a
                            # channel that is gone is not judged)
                            af2.closed = True
                        else:
                            await proc.redirect(stdout=af2)
                            sim.probes['redirect_switched'] += 1

                        await w
                    else:
                        proc = await conn.create_process('cmd', stdin=af,
                                                         **kw)

                    res['run'] = await proc.wait()
                    res['afile'] = af
                    sim.probes['redirect_async_file'] += 1
                elif target == 'concat':
                    # the output of two commands, one after the other, into
                    # the stdin of a third: recv_eof=False keeps the target
                    # open between the two, however late the redirect is
                    # set up (the output and its EOF may be here already)
                    sink = await conn.create_process('sink', **kw)

                    for _i in range(2):
                        src = await conn.create_process('source', **kw)

                        for _ in range(plan.get('late', 0)):
                            await sim.pause('late-redirect')

                        await src.redirect_stdout(sink.stdin, recv_eof=False)
                        await src.wait()

                    sink.stdin.write_eof()
                    await sink.wait()
                    proc = sink
                    res['run'] = 'n/a'
                    sim.probes['redirect_concat'] += 1
                elif target == 'process_in':
                    src = await conn.create_process('source', **kw)
                    proc = await conn.create_process('cmd', stdin=src.stdout,
                                                     **kw)
                    res['run'] = await proc.wait()
                    await src.wait()
                    sim.probes['redirect_process'] += 1
                else:
                    sink = await conn.create_process('sink', **kw)
                    proc = await conn.create_process('cmd',
                                                     stdout=sink.stdin, **kw)
                    await write_stdin(proc)
                    await proc.wait()
                    await sink.wait()
                    sim.probes['redirect_process'] += 1

                if target != 'concat':
                    res['result'] = (proc.exit_status, proc.exit_signal)
        except Exception as exc: # pylint: disable=broad-except
            res['exc'] = exc

        await world.gate('done')
        conn.close()
        await conn.wait_closed()
        acc.close()
        await acc.wait_closed()

    try:
        world.start(main())
        world.run_phase()

        if res.get('stream') is not None:
            res['stream'] = dict(res['stream'])

        if plan.get('target') == 'drain_redirected' and \
                not sim.loop.capped:
            stuck = [t.sim_name for t in sim.tracked
                     if not t.done() and t.sim_name == 'redirected-drain']

            if stuck and res.get('run') is not None:
                world.violation(
                    'hang', 'the command has exited and its channel is '
                    'closed, yet drain() on the stdin stream that was '
                    'redirected from a reader is still waiting',
                    sig='redirected-drain')

        if res.get('stream') is not None or \
                plan.get('target') == 'drain_redirected':
            world.open_gate('settled')
            world.run_phase()

        if res['exc'] is not None:
            world.violation('api-failed', '%s mode failed: %r' %
                            (mode, res['exc']),
                            sig=type(res['exc']).__name__)

        for exc in (res['owner'].lost if res.get('owner') else []):
            if exc is not None and \
                    not isinstance(exc, (asyncssh.Error, OSError)):
                # both ends are asyncssh and behave: an exception that
                # escaped inside the library ended the connection
                world.violation('internal-error', 'the connection was '
                                'closed by an internal error: %r' % (exc,),
                                sig=type(exc).__name__)

        ex = plan['exit']
        want_status = ex[1] if ex[0] == 'status' else None
        want_signal = ex[1] if ex[0] == 'signal' else None

        def check_exit(status, signal, where):
            if ex[0] == 'status' and status != want_status:
                world.violation('exit-mismatch', '%s: exit status %r, '
                                'expected %r' % (where, status, want_status))
            elif ex[0] == 'signal' and (not signal or
                                        signal[0] != want_signal):
                world.violation('exit-mismatch', '%s: exit signal %r, '
                                'expected %r' % (where, signal, want_signal))

        if not world.violations and not sim.loop.capped:
            # main is parked on the 'done' gate by design
            hung = [h for h in sim.hung() if h != 'main']

            if 'result' not in res and 'run' not in res and \
                    res['exc'] is None and not hung:
                hung = ['client-side process API call']

            if res['result'] is None and 'run' not in res and \
                    res['exc'] is None and not hung:
                hung = ['client-side process API call']

            if hung:
                world.violation('hang', 'never completed: %r' % hung[:6],
                                sig=hung[0])
            elif mode == 'run' and 'run' in res:
                r = res['run']

                if r.stdout != s_out or r.stderr != s_err:
                    world.violation(
                        'incomplete-output',
                        'run() reported exit status %r / signal %r with '
                        'stdout %d of %d units and stderr %d of %d units' %
                        (r.exit_status, r.exit_signal, len(r.stdout),
                         len(s_out), len(r.stderr), len(s_err)))

                check_exit(r.exit_status, r.exit_signal, 'run()')

                if res['srv_in'] != s_in:
                    world.violation('input-mismatch', 'command received %r '
                                    'units of stdin, %d were given' %
                                    (None if res['srv_in'] is None
                                     else len(res['srv_in']), len(s_in)))
            elif mode == 'reader' and res.get('collected') is not None:
                co, ce = res['collected']

                if co != s_out or ce != s_err:
                    world.violation(
                        'incomplete-output',
                        'polling collect_output() until the channel closed '
                        'gave stdout %d of %d units and stderr %d of %d '
                        'units (window %d)' %
                        (len(co), len(s_out), len(ce), len(s_err),
                         plan['window']), sig='collect')

                check_exit(res['result'][0], res['result'][1],
                           'collect_output()')
            elif mode == 'reader' and res['result']:
                check_exit(res['result'][0], res['result'][1], 'wait()')
                sf = res.get('slow_file')

                if sf is not None:
                    want = s_err.encode('utf-8') if text else s_err
                    got = b''.join(sf.written)

                    if got != want or not sf.closed:
                        world.violation(
                            'redirect-mismatch', 'stderr redirected to a '
                            'slow async file while stdout is read: %d bytes '
                            'written (closed: %s), %d sent' %
                            (len(got), sf.closed, len(want)),
                            sig='slow_file')
            elif mode == 'redirect':
                target = plan['target']

                if res.get('closed_mid'):
                    # the closing side: what matters is that the call
                    # returned and the connection survived (below)
                    pass
                elif target in ('stream_in', 'afile_in', 'process_in'):
                    if res['srv_in'] != s_in:
                        world.violation(
                            'redirect-mismatch', 'stdin redirected from %s: '
                            'command read %r units, source had %d' %
                            (target, None if res['srv_in'] is None
                             else len(res['srv_in']), len(s_in)),
                            sig=target)
                elif target == 'stream_out':
                    want = s_out.encode('utf-8') if text else s_out
                    st = res.get('stream') or {}

                    if st.get('reset'):
                        # the target failed: what matters is that the call
                        # returned and the connection survived (below)
                        pass
                    elif st.get('data') != want or not st.get('eof'):
                        world.violation(
                            'redirect-mismatch', 'stdout redirected to a '
                            'stream writer: peer read %d bytes (EOF seen: '
                            '%s), %d sent' % (len(st.get('data', b'')),
                                              st.get('eof'), len(want)),
                            sig=target)
                elif target == 'afile_out':
                    want = s_out.encode('utf-8') if text else s_out
                    af = res.get('afile')
                    got = b''.join(af.written) if af else None

                    if af is not None and af.failed:
                        pass
                    elif got != want or not af.closed:
                        world.violation(
                            'redirect-mismatch', 'stdout redirected to an '
                            'async file object: %r bytes written (closed: '
                            '%s), %d sent' % (None if got is None
                                              else len(got),
                                              af and af.closed, len(want)),
                            sig=target)
                elif target == 'switch':
                    want = s_out.encode('utf-8') if text else s_out
                    af, af2 = res.get('afile'), res.get('afile2')
                    got = b''.join(af.written) + b''.join(af2.written) \
                        if af and af2 else None

                    if got != want or not af.closed or not af2.closed:
                        world.violation(
                            'redirect-mismatch', 'stdout redirected to an '
                            'async file object and, %d events later, to a '
                            'second one: %r + %r bytes written (closed: %s, '
                            '%s), %d sent' %
                            (plan.get('late', 0),
                             af and sum(map(len, af.written)),
                             af2 and sum(map(len, af2.written)),
                             af and af.closed, af2 and af2.closed,
                             len(want)), sig=target)
                elif target == 'stderr_stdout':
                    merged = res.get('merged')
                    ok = merged is not None and \
                        len(merged) == len(s_out) + len(s_err)

                    if ok:
                        # is `merged` an interleaving of the two streams?
                        n, m = len(s_out), len(s_err)
                        reach = {0}            # reachable i for current k

                        for k in range(n + m):
                            u = merged[k:k + 1]
                            nxt = set()

                            for i in reach:
                                j = k - i

                                if i < n and s_out[i:i + 1] == u:
                                    nxt.add(i + 1)

                                if j < m and s_err[j:j + 1] == u:
                                    nxt.add(i)

                            reach = nxt

                            if not reach:
                                break

                        ok = n in reach or (not n and not m)

                    if not ok:
                        world.violation(
                            'redirect-mismatch', 'stderr redirected to '
                            'stdout: merged stream has %r units, %d + %d '
                            'sent, or is not a merge of the two' %
                            (None if merged is None else len(merged),
                             len(s_out), len(s_err)), sig=target)
                elif target == 'fileobj_out' and \
                        plan.get('target_fault') is not None:
                    # the target failed (or would have): what matters is
                    # that the call returned and the connection survived
                    pass
                elif target in ('file', 'fileobj_out'):
                    with open(os.path.join(d, 'target.bin'), 'rb') as f:
                        got = f.read()

                    want = s_out.encode('utf-8') if text else s_out

                    if got != want:
                        world.violation(
                            'redirect-mismatch', 'stdout redirected to a '
                            'file: %d bytes written, %d sent' %
                            (len(got), len(want)), sig='file')
                elif target == 'process':
                    if res['target_data'] != s_out:
                        world.violation(
                            'redirect-mismatch', 'stdout redirected to '
                            'another process: it read %r units, %d sent' %
                            (None if res['target_data'] is None
                             else len(res['target_data']), len(s_out)),
                            sig='process')
                elif target == 'concat':
                    if res['target_data'] != s_in + s_in:
                        world.violation(
                            'redirect-mismatch', 'stdout of two commands '
                            'redirected in turn (recv_eof=False, set up '
                            'after %d events) to a third one\'s stdin: it '
                            'read %r units, 2 x %d sent' %
                            (plan.get('late', 0),
                             None if res['target_data'] is None
                             else len(res['target_data']), len(s_in)),
                            sig='concat')
                elif target == 'stdin_file':
                    if res['srv_in'] != s_in:
                        world.violation(
                            'redirect-mismatch', 'stdin redirected from a '
                            'file: command read %r units, file has %d' %
                            (None if res['srv_in'] is None
                             else len(res['srv_in']), len(s_in)),
                            sig='stdin_file')

                if res['result'] and not res.get('closed_mid'):
                    check_exit(res['result'][0], res['result'][1], 'wait()')

        sim.probes['mode_' + mode] += 1

        if text:
            sim.probes['text_mode'] += 1

        if plan['pktsize'] <= 3:
            sim.probes['tiny_packets'] += 1

        if ex[0] == 'signal':
            sim.probes['exit_signal'] += 1
        elif ex[0] == 'status':
            sim.probes['exit_status'] += 1

        world.open_gate('done')
        world.run_phase()
        world.check_loop_health(allow_hang=True, loop_errors=False,
                                internal_errors=True)
        sample = {'mode': mode, 'text': text, 'window': plan['window'],
                  'pktsize': plan['pktsize'], 'out_units': len(s_out),
                  'err_units': len(s_err), 'in_units': len(s_in),
                  'prog_out': plan['prog_out'][:8], 'exit': plan['exit'],
                  'calls': res['calls']}
        return world.result(nontrivial=len(s_out) + len(s_in) > 0,
                            sample=sample)
    finally:
        world.close()
        shutil.rmtree(d, ignore_errors=True)
