"""C02 -- emitted packets conform to RFC 4253 and survive any segmentation."""

import asyncssh

from simkit.refssh import codec
from simkit.refssh.peer import RefPeer, PeerError, Closed, load_private, \
    public_blob, KEX_SUPPORTED
from simkit.sshwire import Reader, Short, string, u32, boolean
from simkit.world import World, RecClient, RecServer, client_opts, \
    server_opts, key, pubkey
from . import chanload

ID = 'C02'
NAME = 'wire_format'
QUICK_S = 45
THOROUGH_S = 900
CHUNK = 40

ENCS = [e for e in codec.CIPHERS]
MACS = [m for m in codec.MACS]
CMPS = ['none', 'zlib', 'zlib@openssh.com']
HOSTKEYS = ['host_ed25519', 'host_rsa', 'host_ecdsa256', 'host_ecdsa384']

RULE = ('asyncssh in either role talks to RefPeer, an independent SSH '
        'implementation (own KEXINIT negotiation, curve25519/NIST ECDH/DH '
        'group1/14/GEX exchange hash, RFC 4253 s7.2 key derivation, every '
        'PyCA-backed cipher and HMAC incl. -etm/-96, zlib, strict KEX). '
        'Per run: drawn (kex, cipher, MAC, compression, host key type), an '
        'echo session with payload lengths 0..max packet incl. block-size '
        'boundaries, a global request, and seeded segmentation in both '
        'directions (1-byte chunks, splits inside length/tag, chunks '
        'spanning packets); in a quarter of the runs a re-exchange during '
        'authentication (RefPeer starts it behind its password request and '
        'the application answers while it runs, or RefPeer as server runs '
        'one before USERAUTH_SUCCESS). Oracle: every packet asyncssh emits decodes '
        'under RefPeer\'s own keys (length, alignment, padding >= 4, '
        'MAC/tag for the expected sequence number, inflates); the handshake '
        'completes; the payload sequence RefPeer decodes equals the '
        'sequence asyncssh\'s sender tap logged and vice versa (exactly '
        'once, in order); echoed application data is intact. Non-trivial = '
        'handshake completed and data flowed; distinct = (algorithms, role, '
        'schedule, trace) signature.')

ASSUMPTIONS = [
    'simulated event loop admits exactly asyncio-legal executions',
    'PyCA primitives are correct (shared by asyncssh and RefPeer)',
    'RefPeer was written by the author of the oracles; it shares no code '
    'with asyncssh',
    'umac-*, RSA key exchange and curve448 are not implemented by RefPeer; '
    'those combinations are exercised asyncssh<->asyncssh only (C01, C03, '
    'C11). For the ML-KEM hybrids RefPeer wires the exchange itself and '
    'takes the KEM primitive from PyCA (key generation, decapsulation) and '
    'from refssh/mlkem.py (encapsulation, written from FIPS 203)',
]

REAL = ['asyncssh endpoint (client or server role): connection, kex_dh, '
        'encryption, mac, compression, channel', 'PyCA']
STUB = ['event loop + clock', 'TCP', 'executor', 'OS randomness',
        'RefPeer (independent SSH implementation) as the other endpoint']
PROBES = ['role_server', 'role_client', 'one_byte_reads', 'handshake_ok',
          'cmp_zlib', 'etm', 'aead', 'cbc', 'stream_cipher', 'gex',
          'global_request', 'zero_len_payload', 'maxpkt_payload',
          'rekey_during_auth']

SIZES = [0, 1, 2, 3, 4, 5, 6, 7, 8, 9, 11, 12, 13, 15, 16, 17, 23, 24, 31,
         32, 33, 63, 64, 65, 127, 128, 255, 256, 257, 1000, 4096, 16383,
         16384, 32759, 32760, 32768]


def gen_plan(rng):
    return {
        'drbg': rng.below(1 << 30),
        'profile': {'p_sched': rng.choice([0, 30, 60, 90, 95]),
                    'p_chunk': rng.choice([30, 70, 95]),
                    'latency_ms': rng.choice([0, 0, 2]), 'capacity': 0},
        'role': rng.choice(['server', 'client']),   # asyncssh's role
        'kex': rng.choice(KEX_SUPPORTED),
        'enc': rng.choice(ENCS), 'mac': rng.choice(MACS),
        'cmp': rng.choice(CMPS), 'hostkey': rng.choice(HOSTKEYS),
        'strict': rng.chance(80),
        'sizes': [rng.choice(SIZES) if rng.chance(80)
                  else rng.between(0, 32768)
                  for _ in range(rng.between(1, 10))],
        'global_request': rng.chance(40),
        'stderr': rng.chance(30),
        # a re-exchange started by RefPeer while its authentication request
        # is being looked at (the server application answers a drawn number
        # of scheduler steps after the server has joined the exchange):
        # delayed compression starts with the packet after USERAUTH_SUCCESS,
        # wherever that ends up
        'auth_rekey': {'delay': rng.below(9)} if rng.chance(25) else None,
    }


def valid_plan(plan):
    try:
        return plan['role'] in ('server', 'client') and \
            plan['kex'] in KEX_SUPPORTED and plan['enc'] in codec.CIPHERS \
            and plan['mac'] in codec.MACS and plan['cmp'] in CMPS and \
            plan['hostkey'] in HOSTKEYS and \
            len(plan['sizes']) > 0 and \
            all(0 <= s <= 32768 for s in plan['sizes']) and \
            (plan.get('auth_rekey') is None or
             0 <= plan['auth_rekey']['delay'] <= 40)
    except (KeyError, TypeError):
        return False


class EchoSession(asyncssh.SSHServerSession):
    def __init__(self, world):
        self.world = world
        self.chan = None

    def connection_made(self, chan):
        self.chan = chan

    def exec_requested(self, command):
        return True

    def data_received(self, data, datatype):
        self.chan.write(data)

    def eof_received(self):
        self.chan.write_eof()
        return True


class EchoServer(RecServer):
    def session_requested(self):
        return EchoSession(self.world)


class SlowAuthEchoServer(EchoServer):
    """Password authentication whose answer takes a drawn number of
       scheduler steps"""

    delay = 0

    def begin_auth(self, username):
        return True

    def password_auth_supported(self):
        return True

    async def validate_password(self, username, password):
        # (the answer must not cross the client's KEXINIT: a client which
        # starts a re-exchange cannot know whether what it sends next is
        # expected compressed if USERAUTH_SUCCESS is already on its way --
        # that race is the protocol's, not the implementation's)
        await self.world.gate('server-in-kex')

        for _ in range(self.delay):
            await self.world.sim.pause('validate')

        return password == 'pw'


def run_plan(plan, sched_seed=None, sched_replay=None):
    world = World(plan, sched_seed, sched_replay)
    sim = world.sim
    role = plan['role']
    from simkit import seams
    rand = seams._urandom
    algs = dict(kex=[plan['kex']], enc=[plan['enc']], mac=[plan['mac']],
                cmp=[plan['cmp']])
    a_algs = dict(kex_algs=[plan['kex']], encryption_algs=[plan['enc']],
                  mac_algs=[plan['mac']], compression_algs=[plan['cmp']])
    out = {'peer': None, 'echo_ok': None, 'error': None, 'conn': None,
           'handshake': False, 'sent_data': b'', 'got_data': b''}
    payloads = [chanload.gen_bytes('c02.%d' % i, 0, n)
                for i, n in enumerate(plan['sizes'])]

    # -- asyncssh as server, RefPeer as client ------------------------------------------
    async def ref_client_script(peer):
        await peer.handshake()
        out['handshake'] = True
        peer.send(bytes([5]) + string(b'ssh-userauth'))
        await peer.expect(6)
        early = []

        if plan.get('auth_rekey'):
            peer.send(bytes([50]) + string(b'u') + string(b'ssh-connection') +
                      string(b'password') + boolean(False) + string(b'pw'))

            # a re-exchange right behind the request: what the server sent
            # before it saw our KEXINIT comes first
            peer.send_kexinit_now()

            while True:
                p = await peer.recv()

                if p[0] == 20:
                    break

                early.append(p)

            world.open_gate('server-in-kex')

            await peer.handshake(peer_kexinit=p, already_sent=True)
            sim.probes['rekey_during_auth'] += 1
        else:
            peer.send(bytes([50]) + string(b'u') + string(b'ssh-connection') +
                      string(b'none'))

        while True:
            p = early.pop(0) if early else await peer.recv()

            if p[0] == 52:
                break

            if p[0] in (7, 53):
                continue

            raise PeerError('unexpected message %d during auth' % p[0])

        peer.authed = True

        if plan['global_request']:
            peer.send(bytes([80]) + string(b'keepalive@openssh.com') +
                      boolean(True))
            sim.probes['global_request'] += 1

        peer.send(bytes([90]) + string(b'session') + u32(7) +
                  u32(1 << 30) + u32(32768))
        their_chan = None
        window = 0

        while their_chan is None:
            p = await peer.recv()

            if p[0] == 91:
                r = Reader(p, 1)
                r.u32()
                their_chan = r.u32()
                window = r.u32()
                maxpkt = r.u32()
            elif p[0] in (80, 81, 82, 7):
                continue
            else:
                raise PeerError('unexpected message %d' % p[0])

        peer.send(bytes([98]) + u32(their_chan) + string(b'exec') +
                  boolean(True) + string(b'echo'))
        got = bytearray()
        want = b''.join(payloads)
        started = False
        sent_all = False
        queue = list(payloads)

        while len(got) < len(want) or not started:
            if started and queue and not sent_all:
                while queue:
                    data = queue[0]

                    if len(data) > window or len(data) > maxpkt:
                        break

                    queue.pop(0)
                    window -= len(data)
                    peer.send(bytes([94]) + u32(their_chan) + string(data))
                    out['sent_data'] += data

                sent_all = not queue

                if len(got) >= len(want) and sent_all:
                    break

            p = await peer.recv()

            if p[0] == 99:
                started = True
            elif p[0] == 100:
                raise PeerError('exec refused')
            elif p[0] == 94:
                r = Reader(p, 1)
                r.u32()
                got += r.string()
            elif p[0] == 93:
                r = Reader(p, 1)
                r.u32()
                window += r.u32()
            elif p[0] in (81, 82, 98):
                continue
            elif p[0] in (96, 97):
                break

        out['got_data'] = bytes(got)
        out['echo_ok'] = bytes(got) == want
        peer.send(bytes([97]) + u32(their_chan))
        peer.send(bytes([1]) + u32(11) + string(b'bye') + string(b''))
        await sim.pause('ref-close')
        peer.close()

    # -- asyncssh as client, RefPeer as server --------------------------------------------
    async def ref_server_script(peer):
        await peer.handshake()
        out['handshake'] = True
        await peer.expect(5)
        peer.send(bytes([6]) + string(b'ssh-userauth'))

        while True:
            p = await peer.recv()

            if p[0] == 50:
                break

            if p[0] == 7:
                continue

            raise PeerError('unexpected message %d before auth' % p[0])

        if plan.get('auth_rekey'):
            # the server starts a re-exchange before it answers
            await peer.handshake()
            sim.probes['rekey_during_auth'] += 1

        peer.send(bytes([52]))
        peer.authed = True
        chan = None
        window = 0

        while True:
            try:
                p = await peer.recv()
            except Closed:
                return

            t = p[0]

            if t == 90:
                r = Reader(p, 1)
                r.string()
                chan = r.u32()
                window = r.u32()
                r.u32()
                peer.send(bytes([91]) + u32(chan) + u32(3) + u32(1 << 30) +
                          u32(32768))
            elif t == 98:
                r = Reader(p, 1)
                r.u32()
                r.string()

                if r.boolean():
                    peer.send(bytes([99]) + u32(chan))
            elif t == 94:
                r = Reader(p, 1)
                r.u32()
                data = r.string()
                out['got_data'] += data

                # echo, split to the client's window as needed
                if len(data) <= window:
                    window -= len(data)
                    peer.send(bytes([94]) + u32(chan) + string(data))
                else:
                    raise PeerError('client window too small for echo')
            elif t == 93:
                r = Reader(p, 1)
                r.u32()
                window += r.u32()
            elif t == 80:
                r = Reader(p, 1)
                r.string()

                if r.boolean():
                    peer.send(bytes([82]))
            elif t == 96:
                peer.send(bytes([96]) + u32(chan))
            elif t == 97:
                peer.send(bytes([97]) + u32(chan))
            elif t == 1:
                return

    class ClientSess(asyncssh.SSHClientSession):
        def __init__(self):
            self.got = bytearray()
            self.done = sim.loop.create_future()

        def data_received(self, data, datatype):
            self.got += data

            if len(self.got) >= sum(map(len, payloads)) and \
                    not self.done.done():
                self.done.set_result(None)

        def connection_lost(self, exc):
            if not self.done.done():
                self.done.set_result(None)

    async def main():
        hk = plan['hostkey']

        if role == 'server':
            def server_factory():
                if plan.get('auth_rekey'):
                    srv = SlowAuthEchoServer(world)
                    srv.delay = plan['auth_rekey']['delay']
                    return srv

                return EchoServer(world)

            acc = await asyncssh.listen(
                '127.0.0.1', 22, server_factory=server_factory,
                **server_opts(server_host_keys=[key(hk)], encoding=None,
                              **a_algs))
            peer = RefPeer(sim, 'client', strict=plan['strict'], rand=rand,
                           hostkey_algs=['ssh-ed25519', 'rsa-sha2-256',
                                         'rsa-sha2-512',
                                         'ecdsa-sha2-nistp256',
                                         'ecdsa-sha2-nistp384'], **algs)
            peer.trusted_host_blobs = {pubkey(hk).public_data}
            out['peer'] = peer
            await sim.loop.create_connection(lambda: peer, '127.0.0.1', 22)

            try:
                await ref_client_script(peer)
            except (PeerError, Closed, Short) as exc:
                out['error'] = exc

            await world.gate('done')
            acc.close()
            await acc.wait_closed()
        else:
            peers = []

            def factory():
                peer = RefPeer(sim, 'server', strict=plan['strict'],
                               rand=rand, host_keys=[load_private(hk)],
                               **algs)
                peers.append(peer)
                out['peer'] = peer

                async def runner():
                    try:
                        await ref_server_script(peer)
                    except (PeerError, Closed, Short) as exc:
                        out['error'] = exc

                sim.track('ref-server', runner())
                return peer

            srv = await sim.loop.create_server(factory, '127.0.0.1', 22)

            try:
                conn = await asyncssh.connect(
                    '127.0.0.1', 22,
                    client_factory=lambda: RecClient(world),
                    **client_opts(known_hosts=([pubkey(hk)], [], []),
                                  **a_algs))
                out['conn'] = conn

                if plan['global_request']:
                    sim.probes['global_request'] += 1

                sess = ClientSess()
                chan, _ = await conn.create_session(
                    lambda: sess, command='echo', encoding=None,
                    window=1 << 30)

                for data in payloads:
                    chan.write(data)
                    out['sent_data'] += data

                    if sim.tape.draw(2, 30):
                        await sim.pause('client-write')

                if not sum(map(len, payloads)) and not sess.done.done():
                    sess.done.set_result(None)

                await sess.done
                out['echo_ok'] = bytes(sess.got) == b''.join(payloads)
                out['client_got'] = bytes(sess.got)
                await world.gate('done')
                conn.close()
                await conn.wait_closed()
            except (asyncssh.Error, OSError) as exc:
                out['error'] = out['error'] or exc
                await world.gate('done')

            srv.close()

    world.start(main())
    world.run_phase()
    peer = out['peer']

    if peer is not None and peer.bug:
        world.close()
        from simkit.runner import HarnessError
        raise HarnessError('RefPeer stub crashed:\n' + peer.bug)

    if peer is not None:
        for text in peer.errors[:3]:
            world.violation('malformed-packet', 'asyncssh (%s role) emitted '
                            'a packet RefPeer cannot decode under %s/%s/%s/'
                            '%s: %s' % (role, plan['kex'], plan['enc'],
                                        plan['mac'], plan['cmp'], text),
                            sig=text.split(':')[-1].strip()[:30])

    if out['error'] is not None and not world.violations:
        world.violation('interop-failure', 'dialogue with the independent '
                        'implementation failed (%s role, %s %s %s %s %s): %r'
                        % (role, plan['kex'], plan['enc'], plan['mac'],
                           plan['cmp'], plan['hostkey'], out['error']),
                        sig=type(out['error']).__name__)

    if not sim.loop.capped and not world.violations:
        if not out['handshake']:
            world.violation('interop-failure', 'handshake never completed')
        elif out['echo_ok'] is not True:
            world.violation('payload-mismatch', 'echoed data differs: sent '
                            '%d bytes, got %d' %
                            (len(out['sent_data']), len(out['got_data'])))

    # exactly-once, in-order: payload sequences on both sides must agree
    if peer is not None and not world.violations:
        alabel = [l for l in sim.pkts if l.startswith(
            'S' if role == 'server' else 'C')]

        if alabel:
            pk = sim.pkts[alabel[0]]
            a_sent = [p[3] for p in pk if p[0] == 'S']
            a_recv = [p[3] for p in pk if p[0] == 'R']

            if peer.received != a_sent[:len(peer.received)] or \
                    len(peer.received) < len(a_sent) - 2:
                idx = next((i for i, (x, y) in
                            enumerate(zip(peer.received, a_sent))
                            if x != y), min(len(peer.received), len(a_sent)))
                world.violation(
                    'sequence-mismatch', 'payloads decoded by RefPeer differ '
                    'from what asyncssh sent at packet #%d (%d decoded, %d '
                    'sent)' % (idx, len(peer.received), len(a_sent)))

            if a_recv != peer.sent[:len(a_recv)]:
                idx = next((i for i, (x, y) in
                            enumerate(zip(a_recv, peer.sent)) if x != y),
                           min(len(a_recv), len(peer.sent)))
                world.violation(
                    'sequence-mismatch', 'payloads asyncssh received differ '
                    'from what RefPeer sent at packet #%d' % idx)

    world.open_gate('done')
    world.run_phase()
    world.check_loop_health(loop_errors=False)

    ok = out['handshake'] and out['echo_ok'] is True
    sim.probes['role_' + role] += 1

    if ok:
        sim.probes['handshake_ok'] += 1
        kind = codec.CIPHERS[plan['enc']][0]

        if kind in ('gcm', 'chacha'):
            sim.probes['aead'] += 1
        elif kind == 'cbc':
            sim.probes['cbc'] += 1
        elif kind.startswith('rc4'):
            sim.probes['stream_cipher'] += 1

        if kind not in ('gcm', 'chacha') and 'etm' in plan['mac']:
            sim.probes['etm'] += 1

        if plan['cmp'] != 'none':
            sim.probes['cmp_zlib'] += 1

        if 'group-exchange' in plan['kex']:
            sim.probes['gex'] += 1

        if 0 in plan['sizes']:
            sim.probes['zero_len_payload'] += 1

        if max(plan['sizes']) >= 32759:
            sim.probes['maxpkt_payload'] += 1

    sim.probes['one_byte_reads'] += 1 if sim.stats.get('short_reads', 0) > 20 \
        else 0
    world.states.add((role, plan['kex'], plan['enc'],
                      plan['mac'] if codec.CIPHERS[plan['enc']][0] not in
                      ('gcm', 'chacha') else '-', plan['cmp'],
                      plan['hostkey']))
    sample = {k: plan[k] for k in ('role', 'kex', 'enc', 'mac', 'cmp',
                                   'hostkey', 'sizes', 'strict')}
    sample['packets_decoded'] = len(peer.received) if peer else 0
    sample['short_reads'] = sim.stats.get('short_reads', 0)
    return world.result(nontrivial=ok, sample=sample)
