#!/venv/bin/python
"""Entry point: /verif/check.py <check-name> [--tier quick|thorough]
[--seed N] [--replay FILE].  Exit 0 = held, 1 = VIOLATION, 2 = harness."""

import os
import sys

HERE = os.path.dirname(os.path.abspath(__file__))

if os.environ.get('PYTHONHASHSEED') is None:
    # fixed hash seed for every worker; the self-test re-runs under others
    os.environ['PYTHONHASHSEED'] = '0'
    os.execv(sys.executable, [sys.executable] + sys.argv)

os.environ.setdefault('RONF_ASYNCSSH_VERIF', '1')
os.environ['HOME'] = '/nonexistent-verif-home'
sys.dont_write_bytecode = True
sys.path.insert(0, HERE)
sys.path.insert(0, os.environ.get('VERIF_REPO', '/repo'))

import faulthandler   # noqa: E402
import signal         # noqa: E402

faulthandler.enable()
faulthandler.register(signal.SIGUSR1, all_threads=True)

from simkit import runner   # noqa: E402

if __name__ == '__main__':
    try:
        code = runner.main()
    except runner.HarnessError as exc:
        print('HARNESS-ERROR', exc)
        code = 2
    except SystemExit:
        raise
    except BaseException: # pylint: disable=broad-except
        import traceback
        traceback.print_exc()
        code = 2

    sys.stdout.flush()
    sys.exit(code)
