"""Independent SFTP v3 machinery for the simulator (no asyncssh code):

  StubSftpServer  -- adversarial responder run as a server-side stream
                     handler over a real SSH session, backed by an in-memory
                     file model; answers requests in scheduler-chosen order,
                     with short reads, injected per-block errors, early EOF,
                     unknown/duplicate ids, wrong reply types.
  RawSftp         -- scripted requester over a raw client-side channel,
                     speaking SFTP packets directly to a real SFTPServer.
"""

import struct

from .sshwire import Reader, Short, string, u32, u64

INIT, VERSION, OPEN, CLOSE, READ, WRITE, LSTAT, FSTAT, SETSTAT, FSETSTAT, \
    OPENDIR, READDIR, REMOVE, MKDIR, RMDIR, REALPATH, STAT, RENAME, \
    READLINK, SYMLINK = range(1, 21)
LINK, BLOCK, UNBLOCK = 21, 22, 23
STATUS, HANDLE, DATA, NAME, ATTRS = 101, 102, 103, 104, 105
EXTENDED, EXTENDED_REPLY = 200, 201

FX_OK, FX_EOF, FX_NO_SUCH_FILE, FX_PERMISSION_DENIED, FX_FAILURE, \
    FX_BAD_MESSAGE, FX_NO_CONNECTION, FX_CONNECTION_LOST, \
    FX_OP_UNSUPPORTED = range(9)

FXF_READ, FXF_WRITE, FXF_APPEND, FXF_CREAT, FXF_TRUNC, FXF_EXCL = \
    1, 2, 4, 8, 16, 32

A_SIZE, A_UIDGID, A_PERM, A_ACMOD = 1, 2, 4, 8


def attrs_v3(size=None, perm=None, uid=None, gid=None, atime=None,
             mtime=None):
    flags = 0
    body = b''

    if size is not None:
        flags |= A_SIZE
        body += u64(size)

    if uid is not None:
        flags |= A_UIDGID
        body += u32(uid) + u32(gid or 0)

    if perm is not None:
        flags |= A_PERM
        body += u32(perm)

    if atime is not None:
        flags |= A_ACMOD
        body += u32(atime) + u32(mtime or 0)

    return u32(flags) + body


def parse_attrs_v3(r):
    flags = r.u32()
    out = {'flags': flags}

    if flags & A_SIZE:
        out['size'] = r.u64()

    if flags & A_UIDGID:
        out['uid'], out['gid'] = r.u32(), r.u32()

    if flags & A_PERM:
        out['perm'] = r.u32()

    if flags & A_ACMOD:
        out['atime'], out['mtime'] = r.u32(), r.u32()

    if flags & 0x80000000:
        for _ in range(r.u32()):
            r.string(), r.string()

    return out


def status(rid, code, msg=b''):
    return bytes([STATUS]) + u32(rid) + u32(code) + string(msg) + string(b'')


def frame(payload):
    return u32(len(payload)) + payload


class MemFS:
    """The reference file model: path -> bytearray"""

    def __init__(self):
        self.files = {}
        self.dirs = {b'/', b'.'}

    def norm(self, path):
        if not path.startswith(b'/'):
            path = b'/' + path

        parts = []

        for p in path.split(b'/'):
            if p in (b'', b'.'):
                continue

            if p == b'..':
                if parts:
                    parts.pop()

                continue

            parts.append(p)

        return b'/' + b'/'.join(parts)


class StubSftpServer:
    """Adversarial SFTP v3 responder.  `policy` (dict from the plan):
         reorder     bool   replies released in scheduler-chosen order
         short_reads list   cycle of fractions (per mille) of the requested
                            size a READ returns (1000 = full)
         read_error_at  int|None   n-th READ request fails with FX_FAILURE
         write_error_at int|None   n-th WRITE request fails
         eof_at      int|None  the source pretends to end at this offset
         no_size     bool      STAT/LSTAT/FSTAT replies leave the size out
                            although stat announced the full size
         bad_reply   None | ('unknown_id'|'dup_id'|'wrong_type', n)  applied
                            to the n-th request
    """

    def __init__(self, sim, fs, policy):
        self.sim = sim
        self.fs = fs
        self.policy = policy
        self.handles = {}
        self.next_handle = 0
        self.nread = 0
        self.nwrite = 0
        self.nreq = 0
        self.log = []
        self.max_outstanding = 0
        self.outstanding = 0
        self.reordered = 0
        self.held_late = 0
        self.last_sent_seq = -1
        self.short_served = 0
        self.errors_injected = 0
        self.bad_replies = 0
        self.writer = None
        self.buf = b''

    def feed(self, data):
        """Bytes from the channel: split into SFTP packets"""

        self.buf += data

        while len(self.buf) >= 4:
            n = struct.unpack('>I', self.buf[:4])[0]

            if len(self.buf) < 4 + n:
                break

            pkt, self.buf = self.buf[4:4 + n], self.buf[4 + n:]

            if pkt:
                self.handle_packet(pkt)

    def send(self, payload):
        try:
            self.writer.write(frame(payload))
        except Exception: # pylint: disable=broad-except
            pass

    def handle_packet(self, pkt):
        t = pkt[0]

        if t == INIT:
            exts = b''

            for name, data in self.policy.get('extensions', []):
                exts += string(name) + string(data)

            self.send(bytes([VERSION]) + u32(3) + exts)
            return

        r = Reader(pkt, 1)
        rid = r.u32()
        seq = self.nreq
        self.nreq += 1
        self.outstanding += 1
        self.max_outstanding = max(self.max_outstanding, self.outstanding)

        try:
            reply = self.respond(t, rid, r)
        except Short:
            reply = status(rid, FX_BAD_MESSAGE, b'short')

        bad = self.policy.get('bad_reply')
        extra = None

        if bad and bad[1] == seq:
            self.bad_replies += 1

            if bad[0] == 'unknown_id':
                reply = reply[:1] + u32(rid ^ 0x5a5a5a5a) + reply[5:]
            elif bad[0] == 'dup_id':
                extra = reply
            elif bad[0] == 'wrong_type':
                reply = bytes([NAME]) + u32(rid) + u32(0)
            elif bad[0] == 'short_body':
                # right type and id, body cut short
                reply = reply[:max(5, len(reply) - 3)]
            elif bad[0] == 'extra_body':
                reply = reply + b'\x00\x01'

        def release():
            self.outstanding -= 1

            if seq < self.last_sent_seq:
                self.reordered += 1

            self.last_sent_seq = max(self.last_sent_seq, seq)
            self.send(reply)

            if extra is not None:
                self.send(extra)

        # 'late': [[request number, rounds], ...] -- that reply is held back
        # for so many further scheduler rounds (other replies, and requests
        # that depend on them, overtake it)
        rounds = 0

        for n, k in self.policy.get('late', []):
            if n == seq:
                rounds = k

        if self.policy.get('reorder') or rounds:
            def step(left):
                fut = self.sim.app_event('sftp-reply')

                if left > 0:
                    fut.add_done_callback(lambda f: step(left - 1))
                else:
                    fut.add_done_callback(lambda f: release())

            if rounds:
                self.held_late += 1

            step(rounds)
        else:
            release()

    def respond(self, t, rid, r):
        fs = self.fs
        pol = self.policy

        if t == EXTENDED:
            name = r.string()

            if name == b'statvfs@openssh.com':
                # f_bsize ... f_namemax: f_files (6th field) tells the
                # caller which path was asked about
                path = fs.norm(r.string())
                vals = [4096, 4096, 1000, 500, 400, len(path) * 1000 + 7,
                        50, 40, 99, 0, 255]
                return bytes([EXTENDED_REPLY]) + u32(rid) + \
                    b''.join(u64(v) for v in vals)

            return status(rid, FX_OP_UNSUPPORTED, b'unsupported')

        if t == OPEN and not pol.get('hostile_tree'):
            path = fs.norm(r.string())
            pflags = r.u32()
            parse_attrs_v3(r)

            if pflags & FXF_CREAT:
                if pflags & FXF_EXCL and path in fs.files:
                    return status(rid, FX_FAILURE, b'exists')

                fs.files.setdefault(path, bytearray())
            elif path not in fs.files:
                return status(rid, FX_NO_SUCH_FILE, b'no such file')

            if pflags & FXF_TRUNC:
                fs.files[path] = bytearray()

            self.next_handle += 1
            h = b'h%d' % self.next_handle
            self.handles[h] = (path, pflags)
            return bytes([HANDLE]) + u32(rid) + string(h)

        if t == CLOSE:
            h = r.string()

            if self.handles.pop(h, None) is None:
                return status(rid, FX_FAILURE, b'bad handle')

            return status(rid, FX_OK)

        if t == READ:
            h, off, n = r.string(), r.u64(), r.u32()
            k = self.nread
            self.nread += 1

            if h not in self.handles:
                return status(rid, FX_FAILURE, b'bad handle')

            if pol.get('read_error_at') == k:
                self.errors_injected += 1
                return status(rid, FX_FAILURE, b'injected read error')

            data = fs.files.get(self.handles[h][0], b'')
            end = len(data)

            if pol.get('eof_at') is not None:
                end = min(end, pol['eof_at'])

            if off >= end:
                return status(rid, FX_EOF, b'eof')

            if n == 0:
                return bytes([DATA]) + u32(rid) + string(b'')

            avail = min(n, end - off)
            shorts = pol.get('short_reads') or [1000]
            frac = shorts[k % len(shorts)]
            take = max(1, avail * frac // 1000)

            if take < avail:
                self.short_served += 1

            return bytes([DATA]) + u32(rid) + string(bytes(
                data[off:off + take]))

        if t == WRITE:
            h, off, data = r.string(), r.u64(), r.string()
            k = self.nwrite
            self.nwrite += 1

            if h not in self.handles:
                return status(rid, FX_FAILURE, b'bad handle')

            if pol.get('write_error_at') == k:
                self.errors_injected += 1
                return status(rid, FX_FAILURE, b'injected write error')

            path, pflags = self.handles[h]
            f = fs.files[path]

            if pflags & FXF_APPEND:
                off = len(f)

            if data:
                if off > len(f):
                    f.extend(bytes(off - len(f)))

                f[off:off + len(data)] = data

            return status(rid, FX_OK)

        if t == OPENDIR:
            path = r.string()
            listing = pol.get('listings', {}).get(path.decode('latin-1'))

            if listing is None:
                return status(rid, FX_NO_SUCH_FILE, b'no such dir')

            self.next_handle += 1
            h = b'd%d' % self.next_handle
            self.handles[h] = [path, list(listing)]
            return bytes([HANDLE]) + u32(rid) + string(h)

        if t == READDIR:
            h = r.string()
            ent = self.handles.get(h)

            if ent is None or not isinstance(ent, list):
                return status(rid, FX_FAILURE, b'bad handle')

            if not ent[1]:
                return status(rid, FX_EOF, b'eof')

            names, ent[1] = ent[1], []
            out = bytes([NAME]) + u32(rid) + u32(len(names))

            for name, kind in names:
                nb = name.encode('latin-1')
                perm = {'d': 0o040755, 'l': 0o120777}.get(kind, 0o100644)
                out += string(nb) + string(b'-rw-r--r-- 1 u g 5 Jan 1 ' + nb) \
                    + attrs_v3(size=5, perm=perm, uid=1, gid=1, atime=1,
                               mtime=1)

            return out

        if t == READLINK:
            path = r.string()
            target = pol.get('links', {}).get(path.decode('latin-1'),
                                              'nowhere')
            tb = target.encode('latin-1')
            return bytes([NAME]) + u32(rid) + u32(1) + string(tb) + \
                string(tb) + attrs_v3()

        if pol.get('hostile_tree') and t in (STAT, LSTAT):
            # type by what the listings said about this path, else file
            path = r.string().decode('latin-1')
            kind = pol.get('kinds', {}).get(path)

            if path in pol.get('listings', {}):
                kind = 'd'

            perm = {'d': 0o040755, 'l': 0o120777}.get(kind, 0o100644)

            if kind == 'l' and t == STAT:
                perm = 0o100644

            return bytes([ATTRS]) + u32(rid) + attrs_v3(
                size=5, perm=perm, uid=1, gid=1, atime=1, mtime=1)

        if pol.get('hostile_tree') and t == OPEN:
            path = r.string()
            self.next_handle += 1
            h = b'h%d' % self.next_handle
            fs.files.setdefault(b'/__pwned__', bytearray(b'pwned'))
            self.handles[h] = (b'/__pwned__', FXF_READ)
            return bytes([HANDLE]) + u32(rid) + string(h)

        if t in (STAT, LSTAT):
            path = fs.norm(r.string())

            if path in fs.files:
                size = len(fs.files[path])

                if pol.get('announce_size') is not None:
                    size = pol['announce_size']

                if pol.get('no_size'):
                    # the size field of ATTRS is optional
                    size = None

                return bytes([ATTRS]) + u32(rid) + attrs_v3(
                    size=size, perm=0o100644, uid=1, gid=1, atime=1, mtime=1)

            if path in fs.dirs or path == b'/':
                return bytes([ATTRS]) + u32(rid) + attrs_v3(
                    size=0, perm=0o040755, uid=1, gid=1, atime=1, mtime=1)

            return status(rid, FX_NO_SUCH_FILE, b'no such file')

        if t == FSTAT:
            h = r.string()

            if h not in self.handles:
                return status(rid, FX_FAILURE, b'bad handle')

            size = len(fs.files[self.handles[h][0]])

            if pol.get('announce_size') is not None:
                size = pol['announce_size']

            if pol.get('no_size'):
                size = None

            return bytes([ATTRS]) + u32(rid) + attrs_v3(
                size=size, perm=0o100644, uid=1, gid=1, atime=1, mtime=1)

        if t in (SETSTAT, FSETSTAT):
            if t == SETSTAT:
                path = fs.norm(r.string())
            else:
                ent = self.handles.get(r.string())
                path = ent[0] if ent else None

            attrs = parse_attrs_v3(r)

            if path is None or path not in fs.files:
                return status(rid, FX_NO_SUCH_FILE, b'no such file')

            if 'size' in attrs:
                # truncate or extend with zeros, as a file system does
                data = fs.files[path]
                n = attrs['size']

                if n > 1 << 26:
                    return status(rid, FX_FAILURE, b'too large')

                if n <= len(data):
                    del data[n:]
                else:
                    data.extend(bytes(n - len(data)))

            return status(rid, FX_OK)

        if t == REALPATH:
            path = fs.norm(r.string())
            return bytes([NAME]) + u32(rid) + u32(1) + string(path) + \
                string(path) + attrs_v3()

        if t == REMOVE:
            path = fs.norm(r.string())

            if fs.files.pop(path, None) is None:
                return status(rid, FX_NO_SUCH_FILE, b'no such file')

            return status(rid, FX_OK)

        if t == MKDIR:
            fs.dirs.add(fs.norm(r.string()))
            return status(rid, FX_OK)

        return status(rid, FX_OP_UNSUPPORTED, b'unsupported')


class RawSftp:
    """Scripted SFTP requester over a raw byte channel (asyncssh
       SSHWriter/SSHReader with encoding=None)"""

    def __init__(self, writer, reader):
        self.w = writer
        self.r = reader
        self.next_id = 1

    def send(self, payload):
        self.w.write(frame(payload))

    async def recv(self):
        hdr = await self.r.readexactly(4)
        n = struct.unpack('>I', hdr)[0]
        return await self.r.readexactly(n)

    async def init(self, version=3, ext=b''):
        self.send(bytes([INIT]) + u32(version) + ext)
        p = await self.recv()
        r = Reader(p, 1)
        ver = r.u32()
        exts = []

        while not r.at_end():
            exts.append((r.string(), r.string()))

        return ver, exts

    async def request(self, t, body):
        rid = self.next_id
        self.next_id += 1
        self.send(bytes([t]) + u32(rid) + body)
        p = await self.recv()
        return rid, p
