"""Minimal independent SSH message field parser/builder used by oracles and
hostile peers (no asyncssh code)."""

import struct


class Short(Exception):
    pass


class Reader:
    def __init__(self, data, pos=0):
        self.d = data
        self.p = pos

    def u8(self):
        if self.p + 1 > len(self.d):
            raise Short()

        v = self.d[self.p]
        self.p += 1
        return v

    def u32(self):
        if self.p + 4 > len(self.d):
            raise Short()

        v = struct.unpack_from('>I', self.d, self.p)[0]
        self.p += 4
        return v

    def u64(self):
        if self.p + 8 > len(self.d):
            raise Short()

        v = struct.unpack_from('>Q', self.d, self.p)[0]
        self.p += 8
        return v

    def string(self):
        n = self.u32()

        if self.p + n > len(self.d):
            raise Short()

        v = self.d[self.p:self.p + n]
        self.p += n
        return bytes(v)

    def boolean(self):
        return bool(self.u8())

    def namelist(self):
        s = self.string()
        return s.split(b',') if s else []

    def mpint(self):
        return int.from_bytes(self.string(), 'big', signed=True)

    def rest(self):
        v = self.d[self.p:]
        self.p = len(self.d)
        return bytes(v)

    def at_end(self):
        return self.p >= len(self.d)


def u8(v):
    return bytes([v & 0xff])


def u32(v):
    return struct.pack('>I', v & 0xffffffff)


def u64(v):
    return struct.pack('>Q', v & 0xffffffffffffffff)


def string(b):
    if isinstance(b, str):
        b = b.encode()

    return struct.pack('>I', len(b)) + bytes(b)


def boolean(v):
    return b'\x01' if v else b'\x00'


def namelist(names):
    return string(b','.join(n if isinstance(n, bytes) else n.encode()
                            for n in names))


def mpint(v):
    if v == 0:
        return string(b'')

    n = (v.bit_length() + 8) // 8 if v > 0 else ((~v).bit_length() + 8) // 8
    return string(v.to_bytes(n, 'big', signed=True))


# message numbers
DISCONNECT, IGNORE, UNIMPLEMENTED, DEBUG = 1, 2, 3, 4
SERVICE_REQUEST, SERVICE_ACCEPT, EXT_INFO = 5, 6, 7
KEXINIT, NEWKEYS = 20, 21
USERAUTH_REQUEST, USERAUTH_FAILURE, USERAUTH_SUCCESS, USERAUTH_BANNER = \
    50, 51, 52, 53
GLOBAL_REQUEST, REQUEST_SUCCESS, REQUEST_FAILURE = 80, 81, 82
CHANNEL_OPEN, CHANNEL_OPEN_CONFIRMATION, CHANNEL_OPEN_FAILURE = 90, 91, 92
CHANNEL_WINDOW_ADJUST, CHANNEL_DATA, CHANNEL_EXTENDED_DATA = 93, 94, 95
CHANNEL_EOF, CHANNEL_CLOSE, CHANNEL_REQUEST = 96, 97, 98
CHANNEL_SUCCESS, CHANNEL_FAILURE = 99, 100
