"""Virtual-time asyncio event loop whose only freedom is *when external
events are observed* (DESIGN.md 2.2).  The ready queue stays FIFO, timers
fire by deadline; at each iteration the scheduler (SchedTape) picks which of
the enabled external events (network reads, EOF/reset, connect/accept,
executor completion, application-side completions) are observed, in which
order, and how many bytes a read returns.
"""

import asyncio
import heapq
import itertools
import socket

from asyncio import events as _events


class Quiescent(Exception):
    """Raised internally when nothing can ever happen again"""


class _DetTask(asyncio.Task):
    """Task with a deterministic hash (creation counter), so iteration over
       sets of tasks does not depend on memory addresses."""

    _ctr = itertools.count(1)

    def __init__(self, coro, *, loop=None, name=None, context=None):
        # hash must exist before super().__init__ registers us in a WeakSet
        self._det_hash = next(_DetTask._ctr)
        super().__init__(coro, loop=loop, name=name or f'T{self._det_hash}',
                         context=context)

    def __hash__(self):
        return self._det_hash

    def __eq__(self, other):
        return self is other


class _DetFuture(asyncio.Future):
    _ctr = itertools.count(1)

    def __init__(self, *, loop=None):
        self._det_hash = next(_DetFuture._ctr)
        super().__init__(loop=loop)

    def __hash__(self):
        return self._det_hash

    def __eq__(self, other):
        return self is other


def reset_counters():
    _DetTask._ctr = itertools.count(1)
    _DetFuture._ctr = itertools.count(1)


class Source:
    """An external event source the scheduler may observe at a poll"""

    kind = 'src'
    seq = 0

    def enabled(self, now):
        return False

    def next_time(self):
        """Earliest virtual time at which this source may become enabled by
           the mere passing of time (None if it needs something else)."""

        return None

    def fire(self, sim, chunk_choice):
        """Run as a ready-queue callback; chunk_choice is an int chosen by
           the scheduler (0 = default/all)."""

    def wants_chunk(self):
        return False


class OneShot(Source):
    """A one-shot completion (connect, accept, executor job, app event)"""

    def __init__(self, kind, fn, at=None, label=''):
        self.kind = kind
        self.fn = fn
        self.at = at
        self.label = label
        self.done = False
        self.cancelled = False

    def enabled(self, now):
        return not self.done and not self.cancelled and \
            (self.at is None or self.at <= now)

    def next_time(self):
        if self.done or self.cancelled:
            return None

        return self.at

    def fire(self, sim, chunk_choice):
        if self.done or self.cancelled:
            return

        self.done = True
        self.fn()


class SimLoop(asyncio.BaseEventLoop):
    """asyncio event loop on virtual time, I/O provided by SimNet"""

    def __init__(self, sim):
        super().__init__()
        self.sim = sim
        self._vtime = 0.0
        self.iterations = 0
        self.quiescent = False
        self.capped = False
        self.set_task_factory(self._det_task_factory)
        self._clock_resolution = 1e-9

    # -- determinism helpers ------------------------------------------------

    @staticmethod
    def _det_task_factory(loop, coro, **kwargs):
        return _DetTask(coro, loop=loop, **kwargs)

    def create_future(self):
        return _DetFuture(loop=self)

    # -- clock ---------------------------------------------------------------

    def time(self):
        return self._vtime

    # -- selector-ish stubs --------------------------------------------------

    def _process_events(self, event_list):
        pass

    def _write_to_self(self):
        pass

    def _make_self_pipe(self):
        pass

    def _close_self_pipe(self):
        pass

    # -- the scheduler ---------------------------------------------------------

    def _run_once(self):
        sim = self.sim
        sched = self._scheduled

        self.iterations += 1

        if self.iterations > sim.max_iterations:
            self.capped = True
            self._stopping = True
            return

        # drop cancelled timers at the head
        while sched and sched[0]._cancelled:
            self._timer_cancelled_count -= 1
            h = heapq.heappop(sched)
            h._scheduled = False

        ready = self._ready
        now = self._vtime

        timers_due = bool(sched) and sched[0]._when <= now
        picked = sim.poll(now, bool(ready) or timers_due)

        if not picked and not ready and not timers_due:
            # nothing observed, nothing runnable: move the clock
            t_timer = sched[0]._when if sched else None
            t_net = sim.next_event_time()

            cands = [t for t in (t_timer, t_net) if t is not None]

            if not cands:
                self.quiescent = True
                self._stopping = True
                return

            nxt = min(cands)

            if nxt > sim.max_sim_time:
                self.quiescent = True
                self.capped = True
                self._stopping = True
                return

            if nxt > now:
                self._vtime = now = nxt
                sim.stats['clock_jumps'] += 1

            picked = sim.poll(now, bool(sched) and sched[0]._when <= now)

        for src, choice in picked:
            h = _events.Handle(src.fire, (sim, choice), self, None)
            ready.append(h)

        # due timers, ordered by (when, heap order)
        while sched and sched[0]._when <= now:
            h = heapq.heappop(sched)
            h._scheduled = False

            if h._cancelled:
                self._timer_cancelled_count -= 1
                continue

            ready.append(h)

        ntodo = len(ready)

        for _ in range(ntodo):
            h = ready.popleft()

            if h._cancelled:
                continue

            sim.step += 1
            h._run()

        if sim.after_iteration is not None:
            sim.after_iteration()

        h = None

    # -- executor: virtual, no threads ----------------------------------------

    def run_in_executor(self, executor, func, *args):
        fut = self.create_future()
        sim = self.sim

        def job():
            if fut.cancelled():
                return

            try:
                res = func(*args)
            except BaseException as exc: # pylint: disable=broad-except
                fut.set_exception(exc)
            else:
                fut.set_result(res)

        sim.add_source(OneShot('exec', job, label=getattr(func, '__name__',
                                                          'job')))
        return fut

    # -- DNS ---------------------------------------------------------------------

    async def getaddrinfo(self, host, port, *, family=0, type=0, proto=0,
                          flags=0):
        return await self.sim.net.getaddrinfo(host, port, family, type,
                                              proto, flags)

    async def getnameinfo(self, sockaddr, flags=0):
        return await self.sim.net.getnameinfo(sockaddr, flags)

    # -- network -----------------------------------------------------------------

    async def create_connection(self, protocol_factory, host=None, port=None,
                                *, ssl=None, family=0, proto=0, flags=0,
                                sock=None, local_addr=None, **kwargs):
        if sock is not None:
            return await self.sim.net.adopt_socket(protocol_factory, sock)

        return await self.sim.net.connect(protocol_factory, host, port,
                                          family, local_addr)

    async def create_server(self, protocol_factory, host=None, port=None, *,
                            family=socket.AF_UNSPEC, flags=socket.AI_PASSIVE,
                            sock=None, backlog=100, ssl=None,
                            reuse_address=None, reuse_port=None, **kwargs):
        return await self.sim.net.listen(protocol_factory, host, port, family,
                                         sock)

    async def create_unix_connection(self, protocol_factory, path=None, *,
                                     ssl=None, sock=None, **kwargs):
        return await self.sim.net.connect_unix(protocol_factory, path)

    async def create_unix_server(self, protocol_factory, path=None, *,
                                 sock=None, backlog=100, ssl=None, **kwargs):
        return await self.sim.net.listen_unix(protocol_factory, path)

    async def connect_read_pipe(self, protocol_factory, pipe):
        return await self.sim.net.connect_read_pipe(protocol_factory, pipe)

    async def connect_write_pipe(self, protocol_factory, pipe):
        return await self.sim.net.connect_write_pipe(protocol_factory, pipe)

    async def shutdown_default_executor(self, timeout=None):
        return None
