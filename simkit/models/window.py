"""Reference flow-control model (DESIGN.md A.4), fed by the ordered packet
tap of one endpoint.  Independent of asyncssh's data structures."""

from ..sshwire import Reader, Short


class ChanModel:
    def __init__(self):
        self.local = None
        self.peer = None
        self.recv_room = 0        # what we advertised and have not yet used
        self.recv_maxpkt = 0
        self.send_room = 0        # what the peer advertised
        self.send_maxpkt = 0
        self.data_recv = 0
        self.data_sent = 0
        self.legit_recv = 0       # bytes received within the window
        self.overrun_at = None    # index in the log of first overrun packet
        self.confirmed = False
        self.hit_zero = False


def audit(pkts):
    """pkts: [(dir, type, seq, payload, note)] of one endpoint, in order.
       Returns (sender_violations, overruns, chans):
         sender_violations: [(index, text)] this endpoint sent too much
         overruns: [(index, local_chan, datalen, room)] the peer sent more
                   than this endpoint's advertised window allowed"""

    chans = {}            # local id -> ChanModel
    by_peer = {}          # peer id -> ChanModel
    pending_in = {}       # peer id -> (window, maxpkt) from received OPEN
    sender_viol = []
    overruns = []

    for idx, (d, t, _seq, payload, _note) in enumerate(pkts):
        if t < 90 or t > 97:
            continue

        r = Reader(payload, 1)

        try:
            if t == 90:
                r.string()
                sender, window, maxpkt = r.u32(), r.u32(), r.u32()

                if d == 'S':
                    c = ChanModel()
                    c.local = sender
                    c.recv_room, c.recv_maxpkt = window, maxpkt
                    chans[sender] = c
                else:
                    pending_in[sender] = (window, maxpkt)
            elif t == 91:
                recipient, sender, window, maxpkt = \
                    r.u32(), r.u32(), r.u32(), r.u32()

                if d == 'R':
                    c = chans.get(recipient)

                    if c is not None:
                        c.peer = sender
                        c.send_room, c.send_maxpkt = window, maxpkt
                        c.confirmed = True
                        by_peer[sender] = c
                else:
                    c = ChanModel()
                    c.local = sender
                    c.peer = recipient
                    c.recv_room, c.recv_maxpkt = window, maxpkt
                    c.send_room, c.send_maxpkt = \
                        pending_in.pop(recipient, (0, 0))
                    c.confirmed = True
                    chans[sender] = c
                    by_peer[recipient] = c
            elif t == 93:
                recipient, n = r.u32(), r.u32()

                if d == 'R':
                    c = chans.get(recipient)

                    if c is not None:
                        c.send_room += n
                else:
                    c = by_peer.get(recipient)

                    if c is not None:
                        c.recv_room += n
            elif t in (94, 95):
                recipient = r.u32()

                if t == 95:
                    r.u32()

                n = len(r.string())

                if d == 'S':
                    c = by_peer.get(recipient)

                    if c is None:
                        sender_viol.append((idx, 'data sent on unknown '
                                            'channel %d' % recipient))
                        continue

                    if n > c.send_room:
                        sender_viol.append(
                            (idx, 'sent %d bytes on channel (peer id %d) '
                             'with only %d of peer window left' %
                             (n, recipient, c.send_room)))

                    if n > c.send_maxpkt:
                        sender_viol.append(
                            (idx, 'sent data packet of %d bytes, peer max '
                             'packet size is %d' % (n, c.send_maxpkt)))

                    c.send_room -= n
                    c.data_sent += n

                    if c.send_room == 0:
                        c.hit_zero = True
                else:
                    c = chans.get(recipient)

                    if c is None:
                        continue

                    c.data_recv += n

                    if c.overrun_at is None and n > c.recv_room:
                        c.overrun_at = idx
                        overruns.append((idx, recipient, n, c.recv_room))
                    elif c.overrun_at is None:
                        c.recv_room -= n
                        c.legit_recv += n
            elif t == 97:
                pass
        except Short:
            continue

    return sender_viol, overruns, chans
