"""Observation-only taps on asyncssh: the totally ordered plaintext packet
log of every connection (sent in wire order, received in processing order),
and the key material escrow at NEWKEYS for the passive reference decoder.

Tap points are the packet-logging hooks asyncssh calls for every packet it
actually puts on the wire / takes off it (after deferral, before dispatch).
"""

from . import seams

_installed = [False]


def install():
    if _installed[0]:
        return

    _installed[0] = True

    from asyncssh import packet as a_packet
    from asyncssh.connection import SSHConnection

    orig_sent = a_packet.SSHPacketLogger.log_sent_packet
    orig_recv = a_packet.SSHPacketLogger.log_received_packet

    def conn_of(handler):
        if isinstance(handler, SSHConnection):
            return handler

        conn = getattr(handler, '_conn', None)
        return conn if isinstance(conn, SSHConnection) else None

    def label_of(sim, conn):
        label = getattr(conn, '_sim_label', None)

        if label is None:
            sim.conn_count += 1
            label = ('C' if conn.is_client() else 'S') + str(sim.conn_count)
            conn._sim_label = label
            conn._sim_owner = sim
            sim.conns[label] = conn
            sim.pkts[label] = []
        elif getattr(conn, '_sim_owner', None) is not sim:
            # a connection left over from an earlier run of this process
            # (a run that hit its step cap, torn down by the collector)
            return None

        return label

    def digest_len(pkttype, payload):
        # kex replies carry a signature over H; with the hybrid ML-KEM
        # exchanges H depends on OpenSSL's encapsulation randomness, which
        # the seed does not control, and an ECDSA signature's DER length
        # varies with H.  Keep that out of the determinism digest.
        return -1 if 31 <= pkttype <= 34 else len(payload)

    def log_sent(self, pkttype, pktid, packet, note=''):
        sim = seams._state['sim']

        if sim is not None:
            conn = conn_of(self)

            if conn is not None and (self is conn or pkttype >= 20):
                if isinstance(packet, a_packet.SSHPacket):
                    packet = packet.get_full_payload()

                label = label_of(sim, conn)

                if label is None:
                    return

                payload = bytes(packet)
                sim.pkts[label].append(('S', pkttype, pktid, payload, ''))
                sim.log('S', label, pkttype, digest_len(pkttype, payload))
                sim.count_sent_packet(label)

                if sim.on_packet is not None:
                    sim.on_packet(label, conn, 'S', pkttype, pktid, payload)

    def log_recv(self, pkttype, pktid, packet, note=''):
        sim = seams._state['sim']

        if sim is not None:
            conn = conn_of(self)

            if conn is not None and (self is conn or pkttype >= 20):
                if isinstance(packet, a_packet.SSHPacket):
                    packet = packet.get_full_payload()

                label = label_of(sim, conn)

                if label is None:
                    return

                payload = bytes(packet)
                sim.pkts[label].append(('R', pkttype, pktid, payload, note))
                sim.log('R', label, pkttype, digest_len(pkttype, payload),
                        note)

                if sim.on_packet is not None:
                    sim.on_packet(label, conn, 'R', pkttype, pktid, payload)

    orig_newkeys = SSHConnection.send_newkeys

    def send_newkeys(self, k, h):
        sim = seams._state['sim']

        if sim is not None:
            label = label_of(sim, self)

            if label is None:
                return orig_newkeys(self, k, h)

            sim.escrow.setdefault(label, []).append(
                (bytes(k), bytes(h), bytes(self._session_id or h)))
            kex = getattr(self, '_kex', None)
            name = getattr(kex, 'algorithm', b'')
            sim.kex_used.setdefault(label, []).append(
                name.decode() if isinstance(name, bytes) else str(name))

        return orig_newkeys(self, k, h)

    SSHConnection.send_newkeys = send_newkeys

    log_sent._orig = orig_sent
    log_recv._orig = orig_recv
    a_packet.SSHPacketLogger.log_sent_packet = log_sent
    a_packet.SSHPacketLogger.log_received_packet = log_recv
