"""Process-wide seams: clocks, OS randomness, ephemeral key generation,
socket creation in asyncssh.listener.  Installed once per worker process;
the per-run state (current Sim, DRBG) is switched by `enter(sim, seed)`.
"""

import hashlib
import os
import socket as _socket
import sys
import time
import types

REAL_MONOTONIC = time.monotonic
REAL_TIME = time.time
REAL_URANDOM = os.urandom

EPOCH0 = 1_800_000_000.0      # simulated wall clock origin (2027-01-15)

_state = {'sim': None, 'drbg': None, 'skew': 0.0, 'installed': False}


class Drbg:
    """SHA-256 counter DRBG"""

    def __init__(self, seed_text):
        self._key = hashlib.sha256(seed_text.encode()).digest()
        self._ctr = 0
        self._buf = b''

    def read(self, n):
        while len(self._buf) < n:
            self._ctr += 1
            self._buf += hashlib.sha256(
                self._key + self._ctr.to_bytes(8, 'big')).digest()

        out, self._buf = self._buf[:n], self._buf[n:]
        return out


def _monotonic():
    sim = _state['sim']

    if sim is None:
        return REAL_MONOTONIC()

    # fault: the process is not scheduled for a while between two
    # instructions (a stall, a long GC pause): the n-th reading of the clock
    # finds that much time gone.  The simulated clock itself moves, so
    # timers that became due simply fire late.
    stall = _state.get('stall')

    if stall is not None:
        stall[0] -= 1

        if stall[0] == 0:
            sim.loop._vtime += stall[1]
            sim.stats['fault_stall_between_clock_reads'] += 1
            _state['stall'] = None

    return sim.loop.time()


def set_stall(after_reads, seconds):
    """Arm the stall fault: `seconds` pass right before clock reading number
       `after_reads` (counted from now)"""

    _state['stall'] = [after_reads, seconds] if after_reads else None


def _time():
    sim = _state['sim']

    if sim is None:
        return REAL_TIME()

    return EPOCH0 + sim.loop.time() + _state['skew']


def _urandom(n):
    drbg = _state['drbg']
    return drbg.read(n) if drbg is not None else REAL_URANDOM(n)


def set_skew(seconds):
    _state['skew'] = seconds


def wall_now():
    return _time()


class _DrbgRandom:
    """Replacement for asyncssh.misc._random (SystemRandom)"""

    @staticmethod
    def randrange(start, stop=None):
        if stop is None:
            start, stop = 0, start

        span = stop - start
        nbytes = (span.bit_length() + 7) // 8 + 8
        return start + int.from_bytes(_urandom(nbytes), 'big') % span


def install():
    """Patch the seams (idempotent)"""

    if _state['installed']:
        return

    _state['installed'] = True

    time.monotonic = _monotonic
    time.time = _time
    os.urandom = _urandom

    import asyncssh
    from asyncssh import misc as a_misc, kex_rsa, listener
    from asyncssh.crypto import dh as a_dh, ec as a_ec
    from cryptography.hazmat.primitives.asymmetric import ec, x25519, x448
    from cryptography.hazmat.primitives.asymmetric import dh

    # -- misc.randrange (RSA kex) -------------------------------------------
    a_misc._random = _DrbgRandom()
    a_misc.randrange = _DrbgRandom.randrange
    kex_rsa.randrange = _DrbgRandom.randrange

    # -- ephemeral keys --------------------------------------------------------
    def x25519_generate(cls=None):
        return x25519.X25519PrivateKey.from_private_bytes(_urandom(32))

    def x448_generate(cls=None):
        return x448.X448PrivateKey.from_private_bytes(_urandom(56))

    x25519.X25519PrivateKey.generate = staticmethod(x25519_generate)
    x448.X448PrivateKey.generate = staticmethod(x448_generate)

    real_ec_generate = ec.generate_private_key

    def ec_generate(curve, backend=None):
        if _state['drbg'] is None:
            return real_ec_generate(curve)

        # any d in [1, 2^(bits-8)] is below the group order of every
        # curve asyncssh uses; good enough for a simulation
        bits = curve.key_size - 8
        d = 1 + int.from_bytes(_urandom(bits // 8 + 8), 'big') % (1 << bits)
        return ec.derive_private_key(d, curve)

    ec.generate_private_key = ec_generate

    def dh_init(self, g, p):
        self._pn = dh.DHParameterNumbers(p, g)

        if _state['drbg'] is None:
            self._priv_key = self._pn.parameters().generate_private_key()
            return

        q = (p - 1) // 2
        x = 2 + int.from_bytes(_urandom(p.bit_length() // 8 + 8),
                               'big') % (q - 2)
        y = pow(g, x, p)
        self._priv_key = dh.DHPrivateNumbers(
            x, dh.DHPublicNumbers(y, self._pn)).private_key()

    a_dh.DH.__init__ = dh_init

    # -- ML-KEM: key generation from the DRBG (the encapsulation randomness
    # of the responder stays inside the primitive and is not seedable) ----
    from asyncssh.crypto import pq as a_pq

    if hasattr(a_pq, '_PyCAKEM'):
        real_pq_init = a_pq._PyCAKEM.__init__

        def pq_init(self, alg_name):
            real_pq_init(self, alg_name)

            if _state['drbg'] is not None and \
                    hasattr(self._priv_cls, 'from_seed_bytes'):
                self._priv_key = self._priv_cls.from_seed_bytes(_urandom(64))

        a_pq._PyCAKEM.__init__ = pq_init
        real_pq_encaps = a_pq._PyCAKEM.encaps
        names = {mlkem_cls: v for v, mlkem_cls in (
            ('768', getattr(a_pq.mlkem, 'MLKEM768PublicKey', None)),
            ('1024', getattr(a_pq.mlkem, 'MLKEM1024PublicKey', None)))}

        def pq_encaps(self, peer_public):
            variant = names.get(self._pub_cls)

            if _state['drbg'] is None or variant is None:
                return real_pq_encaps(self, peer_public)

            # same validation as the primitive (raises ValueError), then
            # the encapsulation of refssh/mlkem.py with seeded randomness;
            # the peer's real decapsulation checks the result in every run
            self._pub_cls.from_public_bytes(peer_public)
            from .refssh import mlkem as ref_mlkem
            return ref_mlkem.encaps(variant, peer_public, _urandom(32))

        a_pq._PyCAKEM.encaps = pq_encaps

    # -- RSA key exchange: transient key and OAEP seed -------------------------
    import hashlib as _hl
    from asyncssh.crypto import rsa as a_rsa
    real_generate = kex_rsa.generate_private_key
    _trans = {}

    def trans_generate(alg_name, *args, **kwargs):
        size = kwargs.get('key_size')

        if _state['drbg'] is None or alg_name != 'ssh-rsa' or \
                size not in (1024, 2048):
            return real_generate(alg_name, *args, **kwargs)

        if size not in _trans:
            import os as _os
            _trans[size] = asyncssh.read_private_key(_os.path.join(
                _os.path.dirname(_os.path.abspath(__file__)), 'keys',
                'trans_rsa_%d' % size))

        return _trans[size]

    kex_rsa.generate_private_key = trans_generate

    def _mgf1(seed, n, hname):
        out = b''
        c = 0

        while len(out) < n:
            out += _hl.new(hname, seed + c.to_bytes(4, 'big')).digest()
            c += 1

        return out[:n]

    real_encrypt = a_rsa.RSAPublicKey.encrypt

    def rsa_encrypt(self, data, hash_name):
        if _state['drbg'] is None:
            return real_encrypt(self, data, hash_name)

        nums = self.pyca_key.public_numbers()
        k = (nums.n.bit_length() + 7) // 8
        hlen = _hl.new(hash_name).digest_size

        if len(data) > k - 2 * hlen - 2:
            return None

        lhash = _hl.new(hash_name, b'').digest()
        db = lhash + bytes(k - len(data) - 2 * hlen - 2) + b'\x01' + data
        seed = _urandom(hlen)
        mdb = bytes(a ^ b for a, b in zip(db, _mgf1(seed, k - hlen - 1,
                                                    hash_name)))
        mseed = bytes(a ^ b for a, b in zip(seed, _mgf1(mdb, hlen,
                                                        hash_name)))
        em = b'\x00' + mseed + mdb
        return pow(int.from_bytes(em, 'big'), nums.e,
                   nums.n).to_bytes(k, 'big')

    a_rsa.RSAPublicKey.encrypt = rsa_encrypt

    # -- deterministic ECDSA nonces ------------------------------------------
    real_sign = a_ec.ECDSAPrivateKey.sign

    def ecdsa_sign(self, data, hash_name=''):
        try:
            priv_key = self.pyca_key
            return priv_key.sign(
                data, ec.ECDSA(a_ec.hashes[hash_name](),
                               deterministic_signing=True))
        except Exception: # pylint: disable=broad-except
            return real_sign(self, data, hash_name)

    a_ec.ECDSAPrivateKey.sign = ecdsa_sign

    # -- sockets made by asyncssh.listener -------------------------------------
    from .net import FakeSocket

    shim = types.ModuleType('socket_shim')
    shim.__dict__.update({k: v for k, v in _socket.__dict__.items()
                          if not k.startswith('__')})
    shim.socket = FakeSocket
    listener.socket = shim

    import warnings
    warnings.filterwarnings('ignore', message='.*FFDH.*')
    warnings.filterwarnings('ignore', category=DeprecationWarning)

    try:
        from cryptography.utils import CryptographyDeprecationWarning
        warnings.filterwarnings('ignore',
                                category=CryptographyDeprecationWarning)
    except ImportError:
        pass

    # -- quiet logging ----------------------------------------------------------
    import logging
    logging.getLogger('asyncssh').setLevel(logging.CRITICAL)
    logging.getLogger('asyncio').setLevel(logging.CRITICAL)

    return asyncssh


def enter(sim, seed_text):
    """Make `sim` the current world and reseed the DRBG"""

    _state['sim'] = sim
    _state['drbg'] = Drbg('drbg:' + seed_text)
    _state['skew'] = 0.0
    _state['stall'] = None

    # process-global state in asyncssh that would leak between runs
    from asyncssh import connection
    connection.SSHConnection.next_conn = 0


def leave():
    _state['sim'] = None
    _state['drbg'] = None
