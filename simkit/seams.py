"""Process-wide seams: clocks, OS randomness, ephemeral key generation,
socket creation in asyncssh.listener.  Installed once per worker process;
the per-run state (current Sim, DRBG) is switched by `enter(sim, seed)`.
"""

import hashlib
import os
import socket as _socket
import sys
import time
import types

REAL_MONOTONIC = time.monotonic
REAL_TIME = time.time
REAL_URANDOM = os.urandom

EPOCH0 = 1_800_000_000.0      # simulated wall clock origin (2027-01-15)

_state = {'sim': None, 'drbg': None, 'skew': 0.0, 'installed': False}


class Drbg:
    """SHA-256 counter DRBG"""

    def __init__(self, seed_text):
        self._key = hashlib.sha256(seed_text.encode()).digest()
        self._ctr = 0
        self._buf = b''

    def read(self, n):
        while len(self._buf) < n:
            self._ctr += 1
            self._buf += hashlib.sha256(
                self._key + self._ctr.to_bytes(8, 'big')).digest()

        out, self._buf = self._buf[:n], self._buf[n:]
        return out


def _monotonic():
    sim = _state['sim']
    return sim.loop.time() if sim is not None else REAL_MONOTONIC()


def _time():
    sim = _state['sim']

    if sim is None:
        return REAL_TIME()

    return EPOCH0 + sim.loop.time() + _state['skew']


def _urandom(n):
    drbg = _state['drbg']
    return drbg.read(n) if drbg is not None else REAL_URANDOM(n)


def set_skew(seconds):
    _state['skew'] = seconds


def wall_now():
    return _time()


class _DrbgRandom:
    """Replacement for asyncssh.misc._random (SystemRandom)"""

    @staticmethod
    def randrange(start, stop=None):
        if stop is None:
            start, stop = 0, start

        span = stop - start
        nbytes = (span.bit_length() + 7) // 8 + 8
        return start + int.from_bytes(_urandom(nbytes), 'big') % span


def install():
    """Patch the seams (idempotent)"""

    if _state['installed']:
        return

    _state['installed'] = True

    time.monotonic = _monotonic
    time.time = _time
    os.urandom = _urandom

    import asyncssh
    from asyncssh import misc as a_misc, kex_rsa, listener
    from asyncssh.crypto import dh as a_dh, ec as a_ec
    from cryptography.hazmat.primitives.asymmetric import ec, x25519, x448
    from cryptography.hazmat.primitives.asymmetric import dh

    # -- misc.randrange (RSA kex) -------------------------------------------
    a_misc._random = _DrbgRandom()
    a_misc.randrange = _DrbgRandom.randrange
    kex_rsa.randrange = _DrbgRandom.randrange

    # -- ephemeral keys --------------------------------------------------------
    def x25519_generate(cls=None):
        return x25519.X25519PrivateKey.from_private_bytes(_urandom(32))

    def x448_generate(cls=None):
        return x448.X448PrivateKey.from_private_bytes(_urandom(56))

    x25519.X25519PrivateKey.generate = staticmethod(x25519_generate)
    x448.X448PrivateKey.generate = staticmethod(x448_generate)

    orders = {'secp256r1': ec.SECP256R1, 'secp384r1': ec.SECP384R1,
              'secp521r1': ec.SECP521R1}
    _ord = {
        'secp256r1': 0xffffffff00000000ffffffffffffffffbce6faada7179e84f3b9cac2fc632551,
        'secp384r1': 0xffffffffffffffffffffffffffffffffffffffffffffffffc7634d81f4372ddf581a0db248b0a77aecec196accc52973,
        'secp521r1': 0x1fffffffffffffffffffffffffffffffffffffffffffffffffffffffffffffffffffa51868783bf2f966b7fcc0148f709a5d03bb5c9b8899c47aebb6fb71e91386409,
    }
    del orders

    real_ec_generate = ec.generate_private_key

    def ec_generate(curve, backend=None):
        n = _ord.get(curve.name)

        if n is None or _state['drbg'] is None:
            return real_ec_generate(curve)

        d = 1 + int.from_bytes(_urandom(n.bit_length() // 8 + 8),
                               'big') % (n - 1)
        return ec.derive_private_key(d, curve)

    ec.generate_private_key = ec_generate

    def dh_init(self, g, p):
        self._pn = dh.DHParameterNumbers(p, g)

        if _state['drbg'] is None:
            self._priv_key = self._pn.parameters().generate_private_key()
            return

        q = (p - 1) // 2
        x = 2 + int.from_bytes(_urandom(p.bit_length() // 8 + 8),
                               'big') % (q - 2)
        y = pow(g, x, p)
        self._priv_key = dh.DHPrivateNumbers(
            x, dh.DHPublicNumbers(y, self._pn)).private_key()

    a_dh.DH.__init__ = dh_init

    # -- deterministic ECDSA nonces ------------------------------------------
    real_sign = a_ec.ECDSAPrivateKey.sign

    def ecdsa_sign(self, data, hash_name=''):
        try:
            priv_key = self.pyca_key
            return priv_key.sign(
                data, ec.ECDSA(a_ec.hashes[hash_name](),
                               deterministic_signing=True))
        except Exception: # pylint: disable=broad-except
            return real_sign(self, data, hash_name)

    a_ec.ECDSAPrivateKey.sign = ecdsa_sign

    # -- sockets made by asyncssh.listener -------------------------------------
    from .net import FakeSocket

    shim = types.ModuleType('socket_shim')
    shim.__dict__.update({k: v for k, v in _socket.__dict__.items()
                          if not k.startswith('__')})
    shim.socket = FakeSocket
    listener.socket = shim

    import warnings
    warnings.filterwarnings('ignore', message='.*FFDH.*')
    warnings.filterwarnings('ignore', category=DeprecationWarning)

    try:
        from cryptography.utils import CryptographyDeprecationWarning
        warnings.filterwarnings('ignore',
                                category=CryptographyDeprecationWarning)
    except ImportError:
        pass

    # -- quiet logging ----------------------------------------------------------
    import logging
    logging.getLogger('asyncssh').setLevel(logging.CRITICAL)
    logging.getLogger('asyncio').setLevel(logging.CRITICAL)

    return asyncssh


def enter(sim, seed_text):
    """Make `sim` the current world and reseed the DRBG"""

    _state['sim'] = sim
    _state['drbg'] = Drbg('drbg:' + seed_text)
    _state['skew'] = 0.0

    # process-global state in asyncssh that would leak between runs
    from asyncssh import connection
    connection.SSHConnection.next_conn = 0


def leave():
    _state['sim'] = None
    _state['drbg'] = None
