"""simkit: deterministic simulation kit for asyncssh.

One process, one event loop, one virtual clock, one in-memory network; every
decision comes from a Tape seeded by one integer (or read back from a replay
file).  See /verif/DESIGN.md section 2.
"""
