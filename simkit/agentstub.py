"""A key agent on the simulated network (UNIX socket), written from
draft-miller-ssh-agent; holds PyCA keys and signs with the independent
signer of refssh.  Its behaviour can be faulty in plan-chosen ways."""

import asyncio

from .sshwire import Reader, Short, string, u32
from .refssh.peer import public_blob, sign, load_private

FAILURE = 5
REQUEST_IDENTITIES = 11
IDENTITIES_ANSWER = 12
SIGN_REQUEST = 13
SIGN_RESPONSE = 14

RSA_SHA2_256 = 2
RSA_SHA2_512 = 4


class StubAgent:
    """identities: list of (private key, blob presented (key or
       certificate), comment).  fault: None or one of 'fail_sign',
       'wrong_sig', 'eof_on_sign', 'eof_on_list', 'garbage_list',
       'short_sig' -- applied to the first request of that kind only."""

    def __init__(self, sim, path, identities, fault=None):
        self.sim = sim
        self.path = path
        self.ids = identities
        self.fault = fault
        self.fault_used = False
        self.stats = {'conns': 0, 'lists': 0, 'signs': 0, 'faults': 0,
                      'signed_blobs': []}
        self.server = None
        self.writers = []

    async def start(self):
        self.server = await asyncio.start_unix_server(self._serve, self.path)

    async def stop(self):
        for w in self.writers:
            w.close()

        self.server.close()
        await self.server.wait_closed()

    def _take_fault(self, *kinds):
        if self.fault in kinds and not self.fault_used:
            self.fault_used = True
            self.stats['faults'] += 1
            return self.fault

        return None

    async def _serve(self, reader, writer):
        self.stats['conns'] += 1
        self.writers.append(writer)

        try:
            while True:
                try:
                    n = int.from_bytes(await reader.readexactly(4), 'big')
                    msg = await reader.readexactly(n)
                except (asyncio.IncompleteReadError, ConnectionError):
                    break

                reply = self._handle(msg)

                if reply is None:
                    break

                writer.write(u32(len(reply)) + reply)
        finally:
            writer.close()

    def _handle(self, msg):
        if not msg:
            return bytes([FAILURE])

        r = Reader(msg, 1)

        if msg[0] == REQUEST_IDENTITIES:
            self.stats['lists'] += 1
            f = self._take_fault('eof_on_list', 'garbage_list')

            if f == 'eof_on_list':
                return None

            out = bytes([IDENTITIES_ANSWER]) + u32(len(self.ids)) + \
                b''.join(string(blob) + string(comment)
                         for _, blob, comment in self.ids)

            if f == 'garbage_list':
                out = out[:-3]

            return out

        if msg[0] == SIGN_REQUEST:
            self.stats['signs'] += 1

            try:
                blob = r.string()
                data = r.string()
                flags = r.u32()
            except Short:
                return bytes([FAILURE])

            priv = None

            for p, b, _ in self.ids:
                if b == blob:
                    priv = p
                    break

            if priv is None:
                return bytes([FAILURE])

            f = self._take_fault('fail_sign', 'wrong_sig', 'eof_on_sign',
                                 'short_sig')

            if f == 'fail_sign':
                return bytes([FAILURE])

            if f == 'eof_on_sign':
                return None

            if f == 'wrong_sig':
                priv = load_private('evil_ed25519') \
                    if Reader(public_blob(priv)).string() == b'ssh-ed25519' \
                    else priv
                data = data + b'x'

            kalg = Reader(public_blob(priv)).string()

            if kalg == b'ssh-rsa':
                alg = b'rsa-sha2-512' if flags & RSA_SHA2_512 else \
                    b'rsa-sha2-256' if flags & RSA_SHA2_256 else b'ssh-rsa'
            else:
                alg = kalg

            sig = sign(priv, alg, data)
            self.stats['signed_blobs'].append(blob)

            if f == 'short_sig':
                sig = sig[:len(sig) // 2]

            return bytes([SIGN_RESPONSE]) + string(sig)

        return bytes([FAILURE])
