"""World: one simulated run with real asyncssh endpoints on the simulated
network; shared by all checks.  Provides phased execution (run to
quiescence, inspect, open a gate, run on), violation recording, the fixture
keys and recording SSHClient/SSHServer owners.
"""

import hashlib
import json
import os
import sys

from . import seams, taps
from .sim import Sim

seams.install()
taps.install()

import asyncssh   # noqa: E402  (after seams so patched names are used)

CPU_TICK_S = 3

KEYDIR = os.path.join(os.path.dirname(os.path.abspath(__file__)), 'keys')

_key_cache = {}


def key(name):
    """Fixture private key (parsed once per process)"""

    k = _key_cache.get(name)

    if k is None:
        k = _key_cache[name] = asyncssh.read_private_key(
            os.path.join(KEYDIR, name))

    return k


def pubkey(name):
    k = _key_cache.get(name + '.pub')

    if k is None:
        k = _key_cache[name + '.pub'] = asyncssh.read_public_key(
            os.path.join(KEYDIR, name + '.pub'))

    return k


def plan_digest(plan):
    return hashlib.sha256(json.dumps(plan, sort_keys=True,
                                     default=str).encode()).hexdigest()[:16]


_current_world = [None]
_orig_internal_error = asyncssh.connection.SSHConnection.internal_error


def _internal_error(self, exc_info=None, error_logger=None):
    """Observe SSHConnection.internal_error (the place where asyncssh turns
       an unexpected exception into closing the connection)"""

    world = _current_world[0]

    if world is not None and not world.closed:
        exc = (exc_info or sys.exc_info())[1]
        world.internal_errors.append(repr(exc)[:300])

    return _orig_internal_error(self, exc_info, error_logger)


asyncssh.connection.SSHConnection.internal_error = _internal_error


class World:
    """One run"""

    def __init__(self, plan, sched_seed=None, sched_replay=None):
        self.plan = plan
        self.internal_errors = []
        _current_world[0] = self
        profile = dict(plan.get('profile', {}))
        self.sim = sim = Sim(sched_seed, sched_replay, profile)
        seams.enter(sim, str(plan.get('drbg', 0)))
        sim.net.default_latency = profile.get('latency_ms', 0) / 1000.0
        cap = profile.get('capacity', 0)
        sim.net.default_capacity = cap if cap else 1 << 30
        self.violations = []
        self.gates = {}
        self.cb = []            # application callback log (global order)
        self.states = set()
        self.closed = False

    # -- recording -------------------------------------------------------------

    def event(self, who, what, *info):
        """Record an application-visible callback"""

        self.cb.append((self.sim.step, who, what) + info)
        self.sim.log('cb', who, what, *[i if isinstance(i, (int, str, bool,
                                                             type(None)))
                                        else type(i).__name__ for i in info])

    def violation(self, cls, detail, sig=''):
        self.violations.append({'cls': cls, 'detail': str(detail)[:2000],
                                'sig': sig})

    # -- phases -----------------------------------------------------------------

    def start(self, coro):
        import asyncio
        loop = self.sim.loop
        asyncio.set_event_loop(loop)
        self.sim.main = loop.create_task(coro)
        self.sim.main.sim_name = 'main'

    def run_phase(self):
        """Run until quiescent (or capped).  Returns True if quiescent."""

        import asyncio
        loop = self.sim.loop
        loop.quiescent = False
        asyncio.set_event_loop(loop)

        from .sim import WorkBudgetExceeded
        import signal
        sim = self.sim
        watch = {'last': -1, 'stuck': 0}

        def on_cpu_tick(_signum, _frame):
            # a callback that burns CPU without ever returning to the loop
            # and without emitting a packet (the packet budget cannot see
            # it).  Measured in process CPU time, not wall time, so machine
            # load does not matter: a legitimate callback takes milliseconds.
            if loop.iterations == watch['last']:
                watch['stuck'] += 1
            else:
                watch['last'] = loop.iterations
                watch['stuck'] = 0

            if watch['stuck'] >= 2 and sim.spin is None:
                sim.spin = 'one callback has been running for more than ' \
                    '%d s of CPU time without returning to the event loop ' \
                    '(loop step %d)' % (2 * CPU_TICK_S, loop.iterations)
                raise WorkBudgetExceeded(sim.spin)

        old = None

        try:
            old = signal.signal(signal.SIGVTALRM, on_cpu_tick)
            signal.setitimer(signal.ITIMER_VIRTUAL, CPU_TICK_S, CPU_TICK_S)
        except (ValueError, OSError):     # not the main thread
            old = None

        try:
            loop.run_forever()
        except WorkBudgetExceeded:
            # deterministic spin detection (see Sim.count_sent_packet)
            loop.capped = True
        finally:
            if old is not None:
                signal.setitimer(signal.ITIMER_VIRTUAL, 0, 0)
                signal.signal(signal.SIGVTALRM, old)

            asyncio.set_event_loop(None)

        return loop.quiescent and not loop.capped

    def gate(self, name):
        fut = self.gates.get(name)

        if fut is None:
            fut = self.gates[name] = self.sim.loop.create_future()

        return fut

    def open_gate(self, name):
        fut = self.gate(name)

        if not fut.done():
            fut.set_result(None)

    # -- result -------------------------------------------------------------------

    def check_loop_health(self, allow_hang=False, loop_errors=True,
                          internal_errors=False):
        sim = self.sim

        if internal_errors and self.internal_errors:
            # for populations in which every endpoint is unmodified asyncssh
            # behaving legally: an exception that escaped inside the library
            # and was turned into "close this connection" takes every
            # channel on it down
            self.violation('internal-error', 'a connection was closed by '
                           'an internal error: %s' % self.internal_errors[0],
                           sig=self.internal_errors[0].split('(')[0])

        if sim.loop.capped:
            self.violation('no-quiescence',
                           'iteration/time cap hit: iterations=%d t=%.1f' %
                           (sim.loop.iterations, sim.loop.time()))
        elif not allow_hang:
            hung = sim.hung()

            if hung:
                self.violation('hang', 'never completed at quiescence: ' +
                               ', '.join(hung[:8]), sig=hung[0])

        for msg, exc in sim.loop_errors:
            if 'never retrieved' in msg:
                # an orphaned future, reported at GC time: untidy, but not
                # an exception escaping from a callback into the loop
                sim.probes['unretrieved_future_exception'] += 1
            elif loop_errors:
                self.violation('loop-exception', msg + ' ' + exc)
            else:
                sim.probes['loop_exception_seen'] += 1

    def check_task_exceptions(self, ok=(), ignore=()):
        """A tracked task (a caller of the library's API) that ended with an
           exception which is not one of the documented kinds: a violation if
           the exception was raised inside the library, a harness error if it
           was raised by the scenario's own code."""

        import traceback

        for t in self.sim.tracked:
            if not t.done() or t.cancelled():
                continue

            exc = t.exception()

            if exc is None or isinstance(exc, ok) or isinstance(exc, ignore):
                continue

            frames = traceback.extract_tb(exc.__traceback__)
            inner = frames[-1].filename if frames else ''
            text = ''.join(traceback.format_exception(
                type(exc), exc, exc.__traceback__))[-1500:]

            if '/verif/' in inner:
                self.close()
                from .runner import HarnessError
                raise HarnessError('scenario task %s raised:\n%s' %
                                   (t.sim_name, text))

            self.violation('unexpected-exception',
                           'the call made by %s ended with %r, raised inside '
                           'the library at %s' %
                           (t.sim_name, exc,
                            ':'.join(str(x) for x in frames[-1][:2])
                            if frames else '?'),
                           sig=type(exc).__name__)
            return

    def result(self, nontrivial=True, sample=None):
        sim = self.sim
        main = sim.main

        if main.done() and not main.cancelled() and \
                main.exception() is not None:
            # the scenario driver itself crashed: a harness defect, never a
            # pass and never a property violation
            import traceback
            exc = main.exception()
            text = ''.join(traceback.format_exception(
                type(exc), exc, exc.__traceback__))
            self.close()
            from .runner import HarnessError
            raise HarnessError('scenario main() raised:\n' + text)

        sched = sim.tape.trimmed()
        sig = hashlib.sha256(
            (plan_digest(self.plan) + sim.sched_sigs.hexdigest() +
             sim.digest()).encode()).hexdigest()[:20]
        res = {'violations': self.violations, 'sched': sched,
               'digest': sim.digest(), 'sig': sig, 'nontrivial': nontrivial,
               'stats': dict(sim.stats), 'probes': dict(sim.probes),
               'sim_time': sim.loop.time(), 'states': self.states,
               'sample': sample, 'trace': list(sim.trace)}
        self.close()
        return res

    def close(self):
        if not self.closed:
            self.closed = True

            try:
                self.sim.close()
            finally:
                seams.leave()


# -- recording owners ---------------------------------------------------------------


class RecClient(asyncssh.SSHClient):
    """SSHClient that records its callbacks"""

    def __init__(self, world, name='client'):
        self.world = world
        self.name = name
        self.conn = None
        self.lost = []

    def connection_made(self, conn):
        self.conn = conn
        self.world.event(self.name, 'connection_made')

    def connection_lost(self, exc):
        self.lost.append(exc)
        self.world.event(self.name, 'connection_lost',
                         type(exc).__name__ if exc else None)

    def auth_completed(self):
        self.world.event(self.name, 'auth_completed')


class RecServer(asyncssh.SSHServer):
    """SSHServer that records its callbacks; no authentication by default"""

    def __init__(self, world, name='server'):
        self.world = world
        self.name = name
        self.conn = None
        self.lost = []
        world.servers.append(self) if hasattr(world, 'servers') else None

    def connection_made(self, conn):
        self.conn = conn
        self.world.event(self.name, 'connection_made')

    def connection_lost(self, exc):
        self.lost.append(exc)
        self.world.event(self.name, 'connection_lost',
                         type(exc).__name__ if exc else None)

    def begin_auth(self, username):
        return False

    def auth_completed(self):
        self.world.event(self.name, 'auth_completed')


def client_opts(**kw):
    opts = dict(known_hosts=None, client_keys=None, agent_path=None,
                username='u', config=None, x509_trusted_certs=None,
                gss_host=None)
    opts.update(kw)
    return opts


def server_opts(**kw):
    opts = dict(server_host_keys=[key('host_ed25519')], config=None,
                gss_host=None, x509_trusted_certs=None)
    opts.update(kw)
    return opts
