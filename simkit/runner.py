"""Batch runner shared by all checks: seeded search over plans and schedules
on 16 processes, determinism self-test, shrinking, replay files, known
findings, evidence.

A check module provides:

  ID            'C07'
  NAME          short name
  gen_plan(rng) -> JSON-able dict (the workload, configuration and faults)
  run_plan(plan, sched_seed=None, sched_replay=None) -> dict with keys
      violations : list of {'cls': str, 'detail': str, 'sig': str}
      sched      : recorded schedule tape (list of ints, trimmed)
      digest     : trace digest of the run
      sig        : interleaving signature (schedule decisions + plan)
      nontrivial : bool
      stats, probes : Counters (fault kinds fired, rare conditions hit)
      sim_time   : simulated seconds covered
      states     : iterable of hashable abstract states visited (optional)
      sample     : small JSON-able description of the run
  RULE          text: how cases are generated, what is non-trivial/distinct
  ASSUMPTIONS   list of str
  REAL / STUB   lists of components
  optional: shrink_plan(plan) -> iterable of simpler candidate plans
"""

import argparse
import collections
import concurrent.futures as cf
import copy
import faulthandler
import hashlib
import importlib
import json
import multiprocessing
import os
import signal
import subprocess
import sys
import traceback

VERIF = os.path.dirname(os.path.dirname(os.path.abspath(__file__)))
REPO = os.environ.get('VERIF_REPO', '/repo')
PY = '/venv/bin/python'

EXIT_OK, EXIT_VIOLATION, EXIT_HARNESS = 0, 1, 2


class HarnessError(Exception):
    """A failure of the machinery, never reported as a violation or a pass"""


class HarnessTimeout(KeyboardInterrupt):
    """Wall-clock backstop fired.  asyncio's Handle._run swallows every
       BaseException except SystemExit/KeyboardInterrupt, hence the base."""


def real_now():
    from . import seams
    return seams.REAL_MONOTONIC()


def load_check(name):
    return importlib.import_module('checks.' + name)


def plan_for(mod, seed):
    from .tape import plan_rng
    return mod.gen_plan(plan_rng(seed, mod.ID))


def run_guarded(mod, plan, sched_seed=None, sched_replay=None, wall=60):
    """run_plan with a wall-clock backstop; a timeout is a harness error"""

    def on_alarm(signum, frame):
        raise HarnessTimeout()

    old = signal.signal(signal.SIGALRM, on_alarm)
    signal.alarm(wall)

    try:
        return mod.run_plan(plan, sched_seed=sched_seed,
                            sched_replay=sched_replay)
    except HarnessTimeout:
        from . import seams
        seams.leave()
        raise HarnessError('harness-timeout: run exceeded %ds wall' %
                           wall) from None
    finally:
        signal.alarm(0)
        signal.signal(signal.SIGALRM, old)


# -- worker ------------------------------------------------------------------------

_worker_mod = {}


def _worker_init():
    faulthandler.enable()
    sys.setrecursionlimit(3000)


def _work(check_name, seeds, opts):
    """Run a chunk of seeds; returns aggregate + first failing seed"""

    mod = _worker_mod.get(check_name)

    if mod is None:
        mod = _worker_mod[check_name] = load_check(check_name)

    agg = {'runs': 0, 'stats': collections.Counter(),
           'probes': collections.Counter(), 'sigs': set(), 'states': set(),
           'sim_time': 0.0, 'samples': [], 'digests': {}, 'fail': None,
           'nontrivial': 0, 'harness': None, 'wall': 0.0, 'known': {}}

    t0 = real_now()

    for seed in seeds:
        try:
            plan = plan_for(mod, seed)
            res = run_guarded(mod, plan, sched_seed=seed)
        except HarnessError as exc:
            agg['harness'] = (seed, str(exc))
            break
        except Exception: # pylint: disable=broad-except
            agg['harness'] = (seed, traceback.format_exc())
            break

        agg['runs'] += 1
        agg['stats'].update(res.get('stats', {}))
        agg['probes'].update(res.get('probes', {}))
        agg['sim_time'] += res.get('sim_time', 0.0)
        agg['digests'][seed] = res['digest']

        if res.get('nontrivial'):
            agg['nontrivial'] += 1
            agg['sigs'].add(res['sig'])

        for st in res.get('states', ()):
            agg['states'].add(st)

        if len(agg['samples']) < 2 and res.get('sample') is not None and \
                res.get('nontrivial'):
            agg['samples'].append({'seed': seed, 'run': res['sample']})

        if res['violations']:
            known = load_known(mod.ID)
            fresh = [v for v in res['violations']
                     if match_known(known, v) is None]

            for v in res['violations']:
                entry = match_known(known, v)

                if entry is not None:
                    agg['known'][entry['id']] = \
                        agg['known'].get(entry['id'], 0) + 1

            if fresh:
                agg['fail'] = {'seed': seed, 'plan': plan,
                               'sched': res['sched'],
                               'violations': fresh,
                               'digest': res['digest']}
                break

    agg['wall'] = real_now() - t0
    agg['states'] = set(list(agg['states'])[:20000])
    return agg


# -- shrinking ---------------------------------------------------------------------

def _same_class(res, cls, known=None):
    """Does `res` still show an *unlisted* violation of class cls?  A
       candidate that only reproduces a listed known finding is not the
       same failure."""

    for v in res['violations']:
        if v['cls'] == cls and (known is None or
                                match_known(known, v) is None):
            return True

    return False


def _generic_plan_candidates(plan):
    """Structure-blind simplifications of a JSON plan: delete list elements
       (halves, then singles), zero/halve integers, falsify booleans."""

    paths = []

    def walk(node, path):
        if isinstance(node, dict):
            for k in node:
                # simulator knobs are not part of the scenario
                if not path and k in ('profile', 'drbg'):
                    continue

                walk(node[k], path + [k])
        elif isinstance(node, list):
            paths.append(('list', path, len(node)))

            for i, v in enumerate(node):
                walk(v, path + [i])
        elif isinstance(node, bool):
            if node:
                paths.append(('bool', path, None))
        elif isinstance(node, int):
            if node:
                paths.append(('int', path, node))

    walk(plan, [])

    def get(root, path):
        for p in path:
            root = root[p]

        return root

    for kind, path, info in paths:
        if kind == 'list' and info:
            n = info

            if n > 3:
                for lo, hi in ((n // 2, n), (0, n // 2)):
                    cand = copy.deepcopy(plan)
                    del get(cand, path)[lo:hi]
                    yield cand

            for i in reversed(range(n)):
                cand = copy.deepcopy(plan)
                del get(cand, path)[i]
                yield cand
        elif kind == 'bool':
            cand = copy.deepcopy(plan)
            get(cand, path[:-1])[path[-1]] = False
            yield cand
        elif kind == 'int':
            for v in (0, info // 2, info - 1):
                if v != info and v >= 0:
                    cand = copy.deepcopy(plan)
                    get(cand, path[:-1])[path[-1]] = v
                    yield cand


def shrink(mod, plan, sched, cls, budget_runs=300, budget_s=40, known=None):
    """Minimise (plan, sched) while a violation of class `cls` persists.
       Returns (plan, sched, result) re-recorded from an actual run."""

    t_end = real_now() + budget_s
    runs = [0]
    valid = getattr(mod, 'valid_plan', None)

    def attempt(p, s):
        if runs[0] >= budget_runs or real_now() > t_end:
            return None

        if valid is not None and not valid(p):
            return None

        runs[0] += 1

        try:
            res = run_guarded(mod, p, sched_replay=s, wall=15)
        except Exception: # pylint: disable=broad-except
            return None

        return res if _same_class(res, cls, known) else None

    if valid is not None and not valid(plan):
        raise HarnessError('the generated plan is rejected by the check\'s '
                           'own valid_plan (generator and validator '
                           'disagree): %r' % (plan,))

    best = attempt(plan, sched)

    if best is None:
        raise HarnessError('violation did not reproduce from its own '
                           'recorded plan and schedule (nondeterminism)')

    sched = best['sched']

    # 1. schedule: all-default, then shortest failing prefix, then zero blocks
    res = attempt(plan, [])

    if res is not None:
        best, sched = res, res['sched']
    else:
        lo, hi = 0, len(sched)

        while lo < hi:
            mid = (lo + hi) // 2
            res = attempt(plan, sched[:mid])

            if res is not None:
                hi = mid
                best = res
            else:
                lo = mid + 1

        res = attempt(plan, sched[:hi])

        if res is not None:
            best, sched = res, res['sched']

        block = max(1, len(sched) // 2)

        while block >= 1 and runs[0] < budget_runs and real_now() < t_end:
            i = 0

            while i < len(sched):
                if any(sched[i:i + block]):
                    cand = sched[:i] + [0] * len(sched[i:i + block]) + \
                        sched[i + block:]
                    res = attempt(plan, cand)

                    if res is not None:
                        best, sched = res, cand

                i += block

            block //= 2

    # 2. plan
    improved = True

    while improved and runs[0] < budget_runs and real_now() < t_end:
        improved = False
        gens = []

        if hasattr(mod, 'shrink_plan'):
            gens.append(mod.shrink_plan(plan))

        gens.append(_generic_plan_candidates(plan))

        for gen in gens:
            for cand in gen:
                res = attempt(cand, sched)

                if res is None and sched:
                    res2 = attempt(cand, [])

                    if res2 is not None:
                        res = res2

                if res is not None:
                    plan, best, sched = cand, res, res['sched']
                    improved = True
                    break

                if runs[0] >= budget_runs or real_now() > t_end:
                    break

            if improved:
                break

    # re-record from the run actually made
    final = attempt(plan, sched) if runs[0] < budget_runs + 5 else None

    if final is None:
        runs[0] = 0
        final = attempt(plan, sched) or best

    return plan, final['sched'], final, runs[0]


# -- known findings -------------------------------------------------------------------

def load_known(prop):
    path = os.path.join(VERIF, 'known_findings.json')

    try:
        with open(path) as f:
            data = json.load(f)
    except FileNotFoundError:
        return []

    return [e for e in data.get('findings', [])
            if e.get('property') == prop and e.get('status') == 'open']


def match_known(known, violation):
    for entry in known:
        classes = entry.get('cls')

        if isinstance(classes, str):
            classes = [classes]

        if violation['cls'] in classes and \
                entry.get('sig') == violation.get('sig'):
            return entry

    return None


# -- replay files -----------------------------------------------------------------------

def write_replay(mod, check_name, seed, plan, sched, res, cls, shrink_runs):
    d = os.path.join(VERIF, 'replays', 'audit') \
        if os.environ.get('VERIF_NO_EVIDENCE') \
        else os.path.join(VERIF, 'replays')
    os.makedirs(d, exist_ok=True)
    body = {'property': mod.ID, 'check': check_name, 'seed': seed,
            'class': cls,
            'violations': res['violations'][:5],
            'plan': plan, 'sched': sched, 'digest': res['digest'],
            'shrink_runs': shrink_runs,
            'trace_tail': res.get('trace', [])[-60:]}
    h = hashlib.sha256(json.dumps(body, sort_keys=True,
                                  default=str).encode()).hexdigest()[:10]
    path = os.path.join(d, f'{mod.ID}_{cls}_{seed}_{h}.json')

    with open(path, 'w') as f:
        json.dump(body, f, indent=1, default=str)

    return path


def replay_file(check_name, path, quiet=False):
    """Re-execute a replay file in this process; returns (res, body)"""

    with open(path) as f:
        body = json.load(f)

    mod = load_check(check_name)
    res = run_guarded(mod, body['plan'], sched_replay=body['sched'])
    return res, body


def verify_replay_fresh(check_name, path, cls):
    """Replay in a fresh interpreter; must fail with the same class"""

    env = dict(os.environ)
    env['PYTHONHASHSEED'] = '7'
    proc = subprocess.run(
        [PY, os.path.join(VERIF, 'check.py'), check_name, '--replay', path],
        capture_output=True, text=True, env=env, timeout=120, cwd=VERIF)

    return proc.returncode == EXIT_VIOLATION and \
        f'class={cls}' in proc.stdout, proc.stdout + proc.stderr


# -- determinism self-test ----------------------------------------------------------------

def _digests_subprocess(check_name, seeds, hashseed):
    env = dict(os.environ)
    env['PYTHONHASHSEED'] = str(hashseed)
    proc = subprocess.run(
        [PY, os.path.join(VERIF, 'check.py'), check_name, '--digests',
         ','.join(map(str, seeds))],
        capture_output=True, text=True, env=env, timeout=600, cwd=VERIF)

    if proc.returncode != 0:
        raise HarnessError('digest subprocess failed: ' + proc.stderr[-2000:])

    return {int(k): v for k, v in json.loads(proc.stdout).items()}


def print_digests(check_name, seeds):
    mod = load_check(check_name)
    out = {}

    # reversed order on purpose: a run must not depend on its predecessors
    for seed in reversed(seeds):
        res = run_guarded(mod, plan_for(mod, seed), sched_seed=seed)
        out[seed] = res['digest'] + ':' + res['sig']

    print(json.dumps(out))


# -- main batch -------------------------------------------------------------------------------

def run_batch(check_name, tier, base_seed, budget_s, workers, selftest_n):
    mod = load_check(check_name)
    t0 = real_now()
    ctx = multiprocessing.get_context('fork')
    chunk = getattr(mod, 'CHUNK', 40)
    next_seed = [base_seed]
    total = {'runs': 0, 'stats': collections.Counter(),
             'probes': collections.Counter(), 'sigs': set(), 'states': set(),
             'sim_time': 0.0, 'samples': [], 'nontrivial': 0,
             'cpu_wall': 0.0, 'known': {}}
    digests = {}
    fails = []
    harness = None
    max_runs = int(os.environ.get('VERIF_MAX_RUNS', '0')) or None

    with cf.ProcessPoolExecutor(max_workers=workers, mp_context=ctx,
                                initializer=_worker_init) as pool:
        pending = set()

        def submit():
            seeds = list(range(next_seed[0], next_seed[0] + chunk))
            next_seed[0] += chunk
            pending.add(pool.submit(_work, check_name, seeds, {}))

        for _ in range(workers * 2):
            submit()

        while pending:
            done, _ = cf.wait(pending, timeout=budget_s + 120,
                              return_when=cf.FIRST_COMPLETED)

            if not done:
                harness = ('-', 'worker pool stalled')
                break

            for fut in done:
                pending.discard(fut)

                try:
                    agg = fut.result()
                except Exception as exc: # pylint: disable=broad-except
                    harness = ('-', 'worker died: %r' % (exc,))
                    continue

                total['runs'] += agg['runs']
                total['stats'].update(agg['stats'])
                total['probes'].update(agg['probes'])
                total['sigs'] |= agg['sigs']
                total['states'] |= agg['states']
                total['sim_time'] += agg['sim_time']
                total['nontrivial'] += agg['nontrivial']
                total['cpu_wall'] += agg['wall']
                digests.update(agg['digests'])

                for kid, n in agg.get('known', {}).items():
                    total['known'][kid] = total['known'].get(kid, 0) + n

                if len(total['samples']) < 3:
                    total['samples'].extend(agg['samples'][:1])

                if agg['fail']:
                    fails.append(agg['fail'])

                if agg['harness'] and not harness:
                    harness = agg['harness']

            stop = harness or len(fails) >= 3 or \
                real_now() - t0 > budget_s or \
                (max_runs and total['runs'] >= max_runs)

            if not stop:
                while len(pending) < workers * 2:
                    submit()
            elif harness or fails:
                for fut in pending:
                    fut.cancel()

    return mod, total, digests, fails, harness, real_now() - t0


def main(argv=None):
    ap = argparse.ArgumentParser()
    ap.add_argument('check')
    ap.add_argument('--tier', default=os.environ.get('VERIF_TIER', 'quick'))
    ap.add_argument('--seed', type=int,
                    default=int(os.environ.get('VERIF_SEED', '1')))
    ap.add_argument('--replay')
    ap.add_argument('--digests')
    ap.add_argument('--budget', type=float)
    ap.add_argument('--workers', type=int,
                    default=int(os.environ.get('VERIF_WORKERS', '16')))
    ap.add_argument('--one', type=int, help='run one seed verbosely')
    args = ap.parse_args(argv)

    check_name = args.check

    if args.digests:
        print_digests(check_name, [int(s) for s in args.digests.split(',')])
        return EXIT_OK

    if args.replay:
        res, body = replay_file(check_name, args.replay)

        if res['violations']:
            known = load_known(body['property'])
            fresh = 0

            for v in res['violations']:
                print('replayed: class=%s sig=%s %s' %
                      (v['cls'], v.get('sig'), v['detail']))
                entry = match_known(known, v)

                if entry is not None:
                    print('KNOWN-FINDING: property=%s %s' %
                          (body['property'], entry['what']))
                else:
                    fresh += 1

            if fresh:
                print('VIOLATION property=%s replay=%s' %
                      (body['property'], args.replay))
                return EXIT_VIOLATION

            return EXIT_OK

        print('replay did not violate')
        return EXIT_OK

    if args.one is not None:
        mod = load_check(check_name)
        plan = plan_for(mod, args.one)
        res = run_guarded(mod, plan, sched_seed=args.one)
        print(json.dumps({'plan': plan, 'violations': res['violations'],
                          'stats': dict(res.get('stats', {})),
                          'probes': dict(res.get('probes', {})),
                          'digest': res['digest'],
                          'sample': res.get('sample')},
                         indent=1, default=str))

        for rec in res.get('trace', []):
            print(rec)

        return EXIT_VIOLATION if res['violations'] else EXIT_OK

    tier = args.tier
    mod = load_check(check_name)
    budget = args.budget or float(os.environ.get('VERIF_BUDGET_S', '0')) or \
        (getattr(mod, 'QUICK_S', 40) if tier == 'quick'
         else getattr(mod, 'THOROUGH_S', 900))
    selftest_n = 12 if tier == 'quick' else 64
    base_seed = args.seed * 1_000_003 if tier == 'quick' \
        else args.seed * 1_000_003 + 500_000

    t_start = real_now()
    mod, total, digests, fails, harness, wall = run_batch(
        check_name, tier, base_seed, budget, args.workers, selftest_n)

    if harness:
        print('HARNESS-ERROR check=%s seed=%s\n%s' %
              (check_name, harness[0], harness[1]))
        return EXIT_HARNESS

    # determinism self-test: same seeds, fresh interpreters, another hash
    # seed, reverse order; digests must be identical
    st_seeds = sorted(digests)[:selftest_n]
    selftest = {'seeds': len(st_seeds), 'mismatches': 0, 'hashseeds': [0, 4242]}

    if st_seeds and not fails:
        for hs in (0, 4242):
            sub = _digests_subprocess(check_name, st_seeds, hs)

            for s in st_seeds:
                if sub[s].split(':')[0] != digests[s]:
                    selftest['mismatches'] += 1
                    print('NONDETERMINISM check=%s seed=%d %s != %s' %
                          (check_name, s, sub[s], digests[s]))

        if selftest['mismatches']:
            return EXIT_HARNESS

    # violations: shrink, match known findings, write replay files
    known = load_known(mod.ID)
    reported = []
    known_hit = {e['id']: e for e in known if total['known'].get(e['id'])}
    seen_sigs = set()

    for fail in fails:
        v0 = fail['violations'][0]
        key = (v0['cls'], v0.get('sig'))

        if key in seen_sigs:
            continue

        seen_sigs.add(key)
        cls = v0['cls']

        try:
            plan, sched, res, nruns = shrink(mod, fail['plan'], fail['sched'],
                                             cls, known=known)
        except HarnessError as exc:
            print('HARNESS-ERROR check=%s seed=%s %s\n  what the run had '
                  'reported: %s %s' %
                  (check_name, fail['seed'], exc, cls,
                   str(v0.get('detail'))[:600]))
            return EXIT_HARNESS

        vmin = next((v for v in res['violations']
                     if v['cls'] == cls and match_known(known, v) is None),
                    None) or next(v for v in res['violations']
                                  if v['cls'] == cls)
        entry = match_known(known, vmin)

        if entry is not None:
            known_hit[entry['id']] = entry
            continue

        path = write_replay(mod, check_name, fail['seed'], plan, sched, res,
                            cls, nruns)
        ok, out = verify_replay_fresh(check_name, path, cls)

        if not ok:
            print('HARNESS-ERROR check=%s seed=%s replay file does not '
                  'reproduce in a fresh interpreter:\n%s' %
                  (check_name, fail['seed'], out[-3000:]))
            return EXIT_HARNESS

        reported.append((path, vmin))

    wall_total = real_now() - t_start
    runs = total['runs']
    evidence = {
        'property_id': mod.ID,
        'tier': 'thorough' if tier == 'thorough' else 'quick',
        'seed': args.seed,
        'level': 'exploration',
        'coverage': {
            'evaluations': runs,
            'distinct_nontrivial': len(total['sigs']),
            'rule': mod.RULE,
            'samples': total['samples'][:3],
            'runs_per_hour': int(runs / max(wall, 1e-9) * 3600),
            'simulated_seconds': round(total['sim_time'], 1),
            'nontrivial_runs': total['nontrivial'],
            'abstract_states': len(total['states']),
            'faults_fired': {k: v for k, v in sorted(total['stats'].items())},
            'probes': {k: v for k, v in sorted(total['probes'].items())},
            'probes_at_zero': [p for p in getattr(mod, 'PROBES', [])
                               if not total['probes'].get(p)],
            'determinism_selftest': selftest,
            'workers': args.workers,
            'real_components': getattr(mod, 'REAL', []),
            'stubbed_components': getattr(mod, 'STUB', []),
            'known_findings_seen': {k: total['known'].get(k, 0)
                                    for k in sorted(known_hit)},
        },
        'assumptions': getattr(mod, 'ASSUMPTIONS', []),
        'wall_s': round(wall_total, 2),
        'violations': len(reported),
    }

    if not os.environ.get('VERIF_NO_EVIDENCE'):
        os.makedirs(os.path.join(VERIF, 'evidence'), exist_ok=True)

        with open(os.path.join(VERIF, 'evidence', mod.ID + '.json'),
                  'w') as f:
            json.dump(evidence, f, indent=1, default=str)

    for entry in known_hit.values():
        print('KNOWN-FINDING: property=%s %s' % (mod.ID, entry['what']))

    for entry in known:
        if entry['id'] not in known_hit and entry.get('replay'):
            # a listed finding is always re-demonstrated from its replay file
            try:
                res, _ = replay_file(check_name,
                                     os.path.join(VERIF, entry['replay']))
            except Exception: # pylint: disable=broad-except
                res = {'violations': []}

            if any(match_known([entry], v) for v in res['violations']):
                print('KNOWN-FINDING: property=%s %s' %
                      (mod.ID, entry['what']))

    print('%s %s: runs=%d distinct=%d sim_s=%.0f wall=%.1fs runs/h=%d '
          'selftest=%d/%d ok' %
          (mod.ID, tier, runs, len(total['sigs']), total['sim_time'], wall,
           evidence['coverage']['runs_per_hour'],
           selftest['seeds'] * 2 - selftest['mismatches'],
           selftest['seeds'] * 2))

    if evidence['coverage']['probes_at_zero']:
        print('probes at zero:', evidence['coverage']['probes_at_zero'])

    for path, v in reported:
        print('violation: class=%s %s' % (v['cls'], v['detail'][:300]))
        print('VIOLATION property=%s replay=%s' % (mod.ID, path))

    return EXIT_VIOLATION if reported else EXIT_OK
