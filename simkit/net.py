"""In-memory network for the simulator: addresses, listeners, stream
transports connected by directed pipes with latency, bounded buffering,
an optional on-path wire (tamper / cut), and fake socket objects.
"""

import asyncio
import collections
import errno
import ipaddress
import socket

from .loop import Source, OneShot


DATA, EOF, RST = 0, 1, 2


class FakeSocket:
    """Just enough of socket.socket for asyncssh"""

    def __init__(self, family=socket.AF_INET, type=socket.SOCK_STREAM,
                 proto=0, net=None, sockname=None, peername=None):
        self.family = family
        self.type = type
        self.proto = proto
        self._net = net if net is not None else FakeSocket.default_net
        self._sockname = sockname
        self._peername = peername
        self._opts = {}
        self.closed = False
        self.bound = False

    default_net = None

    def setsockopt(self, *args):
        self._opts[args[:2]] = args[2] if len(args) > 2 else None

    def getsockopt(self, level, opt, *args):
        return self._opts.get((level, opt), 0)

    def bind(self, sa):
        net = self._net

        if self.family in (socket.AF_INET, socket.AF_INET6):
            host, port = sa[0], sa[1]

            if port == 0:
                port = net.alloc_port()

            net.check_bind(host, port)
            self._sockname = (host, port) + tuple(sa[2:])
        else:
            net.check_bind_unix(sa)
            self._sockname = sa

        self.bound = True

    def getsockname(self):
        return self._sockname

    def getpeername(self):
        if self._peername is None:
            raise OSError(errno.ENOTCONN, 'not connected')

        return self._peername

    def setblocking(self, flag):
        pass

    def listen(self, backlog=0):
        pass

    def fileno(self):
        return -1

    def close(self):
        self.closed = True

    def detach(self):
        return -1


class Pipe(Source):
    """One direction of a connection: sender transport -> receiver transport"""

    kind = 'read'

    def __init__(self, conn, name):
        self.conn = conn
        self.name = name
        self.items = collections.deque()    # [kind, arrival, bytes]
        self.dst = None                     # receiving SimTransport
        self.src = None                     # sending SimTransport
        self.latency = 0.0
        self.stalled = False                # partition of this direction
        self.undelivered = 0
        self.delivered_total = 0
        self.written_total = 0
        self.dead = False
        self.cut_pending = False

    def push(self, kind, data=b''):
        if self.dead or self.cut_pending:
            return

        now = self.conn.net.sim.loop.time()
        self.items.append([kind, now + self.latency, data])

        if kind == DATA:
            self.undelivered += len(data)

    def enabled(self, now):
        if self.dead or self.stalled or not self.items:
            return False

        dst = self.dst

        if dst is None or dst._closed:
            return False

        head = self.items[0]

        if head[1] > now:
            return False

        if head[0] == DATA and dst._paused:
            return False

        if head[0] == EOF and dst._paused:
            # asyncio does not read (so does not see EOF) while paused
            return False

        return True

    def next_time(self):
        if self.dead or self.stalled or not self.items:
            return None

        dst = self.dst

        if dst is None or dst._closed or dst._paused:
            return None

        return self.items[0][1]

    def wants_chunk(self):
        return bool(self.items) and self.items[0][0] == DATA

    def avail(self, now):
        n = 0
        first = 0

        for kind, at, data in self.items:
            if kind != DATA or at > now:
                break

            if not first:
                first = len(data)

            n += len(data)

        return n, first

    def fire(self, sim, choice):
        dst = self.dst

        if self.dead or dst is None or dst._closed or not self.items:
            return

        now = sim.loop.time()
        kind = self.items[0][0]

        if kind == DATA:
            if dst._paused:
                return

            avail, first = self.avail(now)

            if not avail:
                return

            n = sim.chunk_size(choice, avail, first)
            out = []
            got = 0

            while got < n:
                item = self.items[0]
                data = item[2]
                need = n - got

                if len(data) <= need:
                    out.append(data)
                    got += len(data)
                    self.items.popleft()
                else:
                    out.append(data[:need])
                    item[2] = data[need:]
                    got += need

            chunk = b''.join(out)
            self.undelivered -= n
            self.delivered_total += n
            sim.stats['reads'] += 1

            if n < avail:
                sim.stats['short_reads'] += 1

            if self.conn.on_deliver is not None:
                self.conn.on_deliver(self, chunk)

            dst._deliver_data(chunk)

            src = self.src

            if src is not None:
                src._maybe_resume_writing()
        elif kind == EOF:
            if dst._paused:
                return

            self.items.popleft()
            sim.stats['eofs'] += 1
            dst._deliver_eof()
        else:
            self.items.popleft()
            self.items.clear()
            self.dead = True
            sim.stats['resets'] += 1
            dst._deliver_reset()


class SimTransport(asyncio.Transport):
    """Stream transport over a pair of Pipes"""

    def __init__(self, net, conn, protocol, out_pipe, in_pipe, sockname,
                 peername, family):
        super().__init__()
        self._net = net
        self._loop = net.sim.loop
        self.conn = conn
        self._protocol = protocol
        self.out = out_pipe
        self.inp = in_pipe
        out_pipe.src = self
        in_pipe.dst = self
        self._paused = False
        self._closing = False
        self._closed = False          # connection_lost scheduled/called
        self._eof_sent = False
        self._eof_seen = False
        self._proto_paused = False
        self._high = 64 * 1024
        self._low = 16 * 1024
        self._conn_lost_count = 0
        self._rst_scheduled = False
        self._sock = FakeSocket(family, net=net, sockname=sockname,
                                peername=peername)
        self._extra = {'socket': self._sock, 'sockname': sockname,
                       'peername': peername}
        net.transports.append(self)

    # -- asyncio.Transport API ----------------------------------------------------

    def get_extra_info(self, name, default=None):
        return self._extra.get(name, default)

    def is_closing(self):
        return self._closing

    def set_protocol(self, protocol):
        self._protocol = protocol

    def get_protocol(self):
        return self._protocol

    def is_reading(self):
        return not self._paused and not self._closing

    def pause_reading(self):
        self._paused = True

    def resume_reading(self):
        self._paused = False

    def set_write_buffer_limits(self, high=None, low=None):
        if high is None:
            high = 64 * 1024 if low is None else 4 * low

        if low is None:
            low = high // 4

        self._high, self._low = high, low
        self._maybe_pause_writing()

    def get_write_buffer_limits(self):
        return self._low, self._high

    def get_write_buffer_size(self):
        return max(0, self.out.undelivered - self.conn.capacity)

    def can_write_eof(self):
        return True

    def write(self, data):
        if not data:
            return

        if self._eof_sent:
            raise RuntimeError('Cannot call write() after write_eof()')

        if self._closing or self._closed:
            self._conn_lost_count += 1
            return

        if self.out.dead and not self.out.cut_pending:
            # the peer has fully closed its socket (close()/abort(), not a
            # half-close): as with TCP, data sent to it is answered by a
            # reset, which is how a relay learns the other end is gone
            if not self._rst_scheduled:
                self._rst_scheduled = True
                self._net.sim.stats['rst_on_write_to_closed'] += 1
                self.inp.dead = False
                self.inp.items.append([RST, self._loop.time() +
                                       self.inp.latency, b''])

            return

        data = bytes(data)
        self.out.written_total += len(data)
        sim = self._net.sim
        sim.stats['writes'] += 1

        wire = self.conn.wire

        if wire is not None:
            wire.on_write(self.out, data)
        else:
            self.out.push(DATA, data)

        self._maybe_pause_writing()

    def writelines(self, list_of_data):
        self.write(b''.join(list_of_data))

    def write_eof(self):
        if self._eof_sent or self._closing:
            return

        self._eof_sent = True
        self._push_ctl(EOF)

    def close(self):
        if self._closing:
            return

        self._closing = True
        unread = any(it[0] == DATA for it in self.inp.items)

        if unread and not self.inp.cut_pending:
            # closing a socket with unread data in its receive queue makes
            # the kernel send a reset rather than a FIN (Linux tcp_close)
            self._net.sim.stats['rst_on_close_with_unread'] += 1
            self._eof_sent = True
            self._push_ctl(RST)
        elif not self._eof_sent:
            self._eof_sent = True
            self._push_ctl(EOF)

        self.inp.dead = True
        self.inp.items.clear()
        self._call_connection_lost(None)

    def abort(self):
        if self._closed:
            return

        self._closing = True
        self._push_ctl(RST)
        self.inp.dead = True
        self.inp.items.clear()
        self._call_connection_lost(None)

    # -- internals -----------------------------------------------------------------

    def _push_ctl(self, kind):
        wire = self.conn.wire

        if wire is not None:
            wire.on_ctl(self.out, kind)
        else:
            self.out.push(kind)

    def _call_connection_lost(self, exc):
        if self._closed:
            return

        self._closed = True
        self._closing = True
        self._loop.call_soon(self._connection_lost, exc)

    def _connection_lost(self, exc):
        try:
            self._protocol.connection_lost(exc)
        finally:
            self._sock.closed = True
            self._net.note_closed(self)

    def _maybe_pause_writing(self):
        if not self._proto_paused and \
                self.get_write_buffer_size() > self._high:
            self._proto_paused = True
            self._net.sim.stats['pause_writing'] += 1

            try:
                self._protocol.pause_writing()
            except Exception as exc: # pylint: disable=broad-except
                self._loop.call_exception_handler({
                    'message': 'protocol.pause_writing() failed',
                    'exception': exc, 'transport': self})

    def _maybe_resume_writing(self):
        if self._proto_paused and self.get_write_buffer_size() <= self._low:
            self._proto_paused = False

            if self._closed:
                return

            try:
                self._protocol.resume_writing()
            except Exception as exc: # pylint: disable=broad-except
                self._loop.call_exception_handler({
                    'message': 'protocol.resume_writing() failed',
                    'exception': exc, 'transport': self})

    def _deliver_data(self, chunk):
        self._protocol.data_received(chunk)

    def _deliver_eof(self):
        self._eof_seen = True

        try:
            keep_open = self._protocol.eof_received()
        except Exception as exc: # pylint: disable=broad-except
            self._fatal_error(exc)
            return

        if not keep_open:
            self.close()

    def _deliver_reset(self):
        if self._closed:
            return

        self._closing = True

        if not self.out.cut_pending:
            self.out.dead = True
            self.out.items.clear()

        self._call_connection_lost(
            ConnectionResetError(errno.ECONNRESET,
                                 'Connection reset by peer'))

    def _fatal_error(self, exc):
        self._loop.call_exception_handler({
            'message': 'Fatal error on transport', 'exception': exc,
            'transport': self, 'protocol': self._protocol})
        self.abort()


class SimConnection:
    """A TCP/UNIX connection: two pipes, an optional wire, a capacity"""

    def __init__(self, net, label):
        self.net = net
        self.label = label
        self.c2s = Pipe(self, label + ':c2s')
        self.s2c = Pipe(self, label + ':s2c')
        self.wire = None
        self.capacity = 1 << 30
        self.on_deliver = None
        self.client = None
        self.server = None

    def set_latency(self, c2s, s2c=None):
        self.c2s.latency = c2s
        self.s2c.latency = c2s if s2c is None else s2c

    def cut(self, how='rst'):
        """Network-level loss of the connection: both ends see a reset (or
           an EOF), undelivered data is discarded."""

        self.net.sim.stats['cut_' + how] += 1

        for pipe in (self.c2s, self.s2c):
            pipe.items.clear()
            pipe.undelivered = 0
            pipe.stalled = False
            pipe.items.append([RST if how == 'rst' else EOF,
                               self.net.sim.loop.time(), b''])
            pipe.cut_pending = True

    def cut_after_delivery(self, pipe, how):
        """Cut once everything currently queued on `pipe` was delivered (the
           other direction is cut at the same moment)"""

        self.net.sim.stats['cut_' + how] += 1
        kind = RST if how == 'rst' else EOF
        now = self.net.sim.loop.time()
        pipe.items.append([kind, now + pipe.latency, b''])
        pipe.cut_pending = True
        other = self.s2c if pipe is self.c2s else self.c2s
        other.items.clear()
        other.undelivered = 0
        other.items.append([kind, now + other.latency, b''])
        other.cut_pending = True

    def stall(self, direction=None, on=True):
        for pipe in (self.c2s, self.s2c):
            if direction is None or pipe is direction:
                pipe.stalled = on


class SimServer(asyncio.AbstractServer):
    """Listener on SimNet"""

    def __init__(self, net, protocol_factory, keys, socks):
        self._net = net
        self._factory = protocol_factory
        self._keys = keys
        self.sockets = socks
        self._open = True
        self._waiters = []

    def is_serving(self):
        return self._open

    def get_loop(self):
        return self._net.sim.loop

    def close(self):
        if not self._open:
            return

        self._open = False

        for key in self._keys:
            if self._net.listeners.get(key) is self:
                del self._net.listeners[key]

        for sock in self.sockets:
            sock.closed = True

        self.sockets = ()

    async def wait_closed(self):
        return None

    async def start_serving(self):
        return None

    async def serve_forever(self):
        raise NotImplementedError


class SimNet:
    """Address space, listeners, connections, DNS"""

    def __init__(self, sim):
        self.sim = sim
        self.listeners = {}       # (host, port) or path -> SimServer
        self.orphaned = []        # UNIX listeners whose path was re-bound
        self.transports = []
        self.open_transports = 0
        self.connections = []
        self.dns = {'localhost': ['127.0.0.1']}
        self.rdns = {}
        self._next_port = 40000
        self.default_latency = 0.0
        self.default_capacity = 1 << 30
        self.on_connection = None     # hook(conn) to install wires etc.
        self.dns_fail = set()
        self.refuse = set()
        FakeSocket.default_net = self

    # -- helpers -------------------------------------------------------------------

    def alloc_port(self):
        self._next_port += 1
        return self._next_port

    def note_closed(self, transport):
        pass

    def check_bind(self, host, port):
        if (host, port) in self.listeners or \
                (('0.0.0.0', port) in self.listeners and ':' not in host) or \
                ('bind', host, port) in self.refuse:
            raise OSError(errno.EADDRINUSE, 'Address already in use')

    def check_bind_unix(self, path):
        if path in self.listeners:
            raise OSError(errno.EADDRINUSE, 'Address already in use')

    @staticmethod
    def _is_ip(host):
        try:
            ipaddress.ip_address(host)
            return True
        except ValueError:
            return False

    # -- DNS -----------------------------------------------------------------------

    async def getaddrinfo(self, host, port, family, type, proto, flags):
        sim = self.sim
        fut = sim.loop.create_future()
        sim.add_source(OneShot('dns', lambda: fut.done() or
                               fut.set_result(None), label=str(host)))
        await fut

        if isinstance(port, str):
            port = int(port) if port else 0

        port = port or 0

        if host is None or host == '':
            addrs = ['0.0.0.0'] if flags & socket.AI_PASSIVE \
                else ['127.0.0.1']
        elif isinstance(host, bytes):
            host = host.decode()
            addrs = None
        else:
            addrs = None

        # what the real resolver call does with arguments it cannot even
        # pass on (CPython: socket.getaddrinfo)
        if not 0 <= port <= 65535:
            raise OverflowError('getsockaddrarg: port must be 0-65535.')

        if addrs is None:
            if '\0' in host:
                raise ValueError('embedded null character')

            if not self._is_ip(host) and \
                    any(not 0 < len(label) < 64
                        for label in host.rstrip('.').split('.')):
                raise UnicodeError('encoding with \'idna\' codec failed '
                                   '(UnicodeError: label empty or too long)')

            if host in self.dns_fail:
                raise socket.gaierror(socket.EAI_NONAME,
                                      'Name or service not known')

            if self._is_ip(host):
                addrs = [host]
            elif host in self.dns:
                addrs = list(self.dns[host])
            else:
                raise socket.gaierror(socket.EAI_NONAME,
                                      'Name or service not known')

        result = []

        for addr in addrs:
            fam = socket.AF_INET6 if ':' in addr else socket.AF_INET

            if family not in (0, fam):
                continue

            sa = (addr, port, 0, 0) if fam == socket.AF_INET6 \
                else (addr, port)
            canon = host if flags & socket.AI_CANONNAME and host else ''
            canon = self.canon.get(canon, canon) if canon else ''
            result.append((fam, socket.SOCK_STREAM, 6, canon, sa))

        if not result:
            raise socket.gaierror(socket.EAI_NONAME,
                                  'Name or service not known')

        return result

    canon = {}

    async def getnameinfo(self, sockaddr, flags):
        sim = self.sim
        fut = sim.loop.create_future()
        sim.add_source(OneShot('dns', lambda: fut.done() or
                               fut.set_result(None), label='rdns'))
        await fut

        addr, port = sockaddr[:2]
        host = self.rdns.get(addr)

        if host is None:
            if flags & socket.NI_NAMEREQD:
                raise socket.gaierror(socket.EAI_NONAME, 'Name not known')

            host = addr

        return host, str(port)

    # -- listen --------------------------------------------------------------------

    async def listen(self, protocol_factory, host, port, family, sock):
        if sock is not None:
            sa = sock.getsockname()
            key = (sa[0], sa[1])
            self.listeners[key] = server = \
                SimServer(self, protocol_factory, [key], [sock])
            return server

        if isinstance(host, (list, tuple)):
            hosts = list(host)
        elif host is None or host == '':
            hosts = ['0.0.0.0']
        else:
            hosts = [host]

        addrs = []

        for h in hosts:
            if self._is_ip(h):
                addrs.append(h)
            elif h in self.dns:
                addrs.extend(self.dns[h])
            else:
                raise socket.gaierror(socket.EAI_NONAME, 'Name not known')

        if not port:
            port = self.alloc_port()

        keys = []
        socks = []

        for addr in addrs:
            self.check_bind(addr, port)
            keys.append((addr, port))
            fam = socket.AF_INET6 if ':' in addr else socket.AF_INET
            socks.append(FakeSocket(fam, net=self, sockname=(addr, port)))

        server = SimServer(self, protocol_factory, keys, socks)

        for key in keys:
            self.listeners[key] = server

        return server

    async def listen_unix(self, protocol_factory, path):
        # asyncio's create_unix_server() removes an existing socket file and
        # binds anew: a listener already on that path stays open, but
        # nobody can reach it any more
        old = self.listeners.get(path)

        if old is not None:
            self.orphaned.append(old)

        sock = FakeSocket(socket.AF_UNIX, net=self, sockname=path)
        server = SimServer(self, protocol_factory, [path], [sock])
        self.listeners[path] = server
        return server

    # -- connect -------------------------------------------------------------------

    def _find_listener(self, addr, port):
        server = self.listeners.get((addr, port))

        if server is None and ':' not in addr:
            server = self.listeners.get(('0.0.0.0', port))

        if server is None and ':' in addr:
            server = self.listeners.get(('::', port))

        return server

    async def connect(self, protocol_factory, host, port, family,
                      local_addr):
        sim = self.sim
        infos = await self.getaddrinfo(host, port, family,
                                       socket.SOCK_STREAM, 0, 0)
        last_exc = None

        for fam, _, _, _, sa in infos:
            addr = sa[0]

            fut = sim.loop.create_future()
            sim.add_source(OneShot(
                'connect', lambda fut=fut: fut.done() or fut.set_result(None),
                at=sim.loop.time() + self.default_latency,
                label=f'{addr}:{port}'))
            await fut

            server = self._find_listener(addr, port)

            if server is None or ('connect', addr, port) in self.refuse:
                sim.stats['connect_refused'] += 1
                last_exc = ConnectionRefusedError(
                    errno.ECONNREFUSED,
                    f'Connect call failed {(addr, port)!r}')
                continue

            if local_addr:
                local = (local_addr[0], local_addr[1] or self.alloc_port())
            else:
                local = ('127.0.0.1' if fam == socket.AF_INET else '::1',
                         self.alloc_port())

            return await self._establish(protocol_factory, server, fam,
                                         local, (addr, port))

        raise last_exc

    async def connect_unix(self, protocol_factory, path):
        sim = self.sim
        fut = sim.loop.create_future()
        sim.add_source(OneShot('connect',
                               lambda: fut.done() or fut.set_result(None),
                               label=str(path)))
        await fut

        server = self.listeners.get(path)

        if server is None:
            raise FileNotFoundError(errno.ENOENT,
                                    'No such file or directory', path)

        return await self._establish(protocol_factory, server,
                                     socket.AF_UNIX, '', path)

    async def adopt_socket(self, protocol_factory, sock):
        raise NotImplementedError('create_connection(sock=) not simulated')

    async def _establish(self, protocol_factory, server, fam, local, remote):
        sim = self.sim
        loop = sim.loop
        conn = SimConnection(self, f'c{len(self.connections)}')
        conn.set_latency(self.default_latency)
        conn.capacity = self.default_capacity
        conn.local, conn.remote = local, remote
        self.connections.append(conn)
        sim.add_source(conn.c2s)
        sim.add_source(conn.s2c)

        if self.on_connection is not None:
            self.on_connection(conn)

        protocol = protocol_factory()
        ctrans = SimTransport(self, conn, protocol, conn.c2s, conn.s2c,
                              local, remote, fam)
        conn.client = ctrans

        def accept():
            if not server.is_serving():
                # listener went away before accept: the client sees a reset
                conn.s2c.dst = ctrans
                conn.s2c.items.append([RST, loop.time(), b''])
                return

            sproto = server._factory()
            strans = SimTransport(self, conn, sproto, conn.s2c, conn.c2s,
                                  remote, local, fam)
            conn.server = strans
            sim.stats['accepts'] += 1
            sproto.connection_made(strans)

        sim.add_source(OneShot('accept', accept,
                               at=loop.time() + conn.c2s.latency,
                               label=conn.label))

        waiter = loop.create_future()

        def made():
            protocol.connection_made(ctrans)

            if not waiter.done():
                waiter.set_result(None)

        loop.call_soon(made)

        # as asyncio's _create_connection_transport: a caller cancelled
        # while the connection is being set up does not leave it behind
        try:
            await waiter
        except BaseException:
            ctrans.close()
            raise

        return ctrans, protocol

    async def connect_read_pipe(self, protocol_factory, pipe):
        raise NotImplementedError

    async def connect_write_pipe(self, protocol_factory, pipe):
        raise NotImplementedError


class Wire:
    """On-path party base class: sees every transport.write() of both
       directions (asyncssh emits exactly one SSH packet per write) and
       decides what goes into the pipe."""

    def __init__(self, conn):
        self.conn = conn
        self.count = {conn.c2s: 0, conn.s2c: 0}
        self.bytes = {conn.c2s: 0, conn.s2c: 0}
        conn.wire = self

    def dirname(self, pipe):
        return 'c2s' if pipe is self.conn.c2s else 's2c'

    def on_write(self, pipe, data):
        self.count[pipe] += 1
        self.bytes[pipe] += len(data)
        self.forward(pipe, data, self.count[pipe] - 1)

    def forward(self, pipe, data, index):
        pipe.push(DATA, data)

    def on_ctl(self, pipe, kind):
        pipe.push(kind)


class CutWire(Wire):
    """Loses the connection (reset / EOF to both ends, or a stall of both
       directions) once `index` writes of `direction` have passed and `off`
       further bytes of the next one."""

    def __init__(self, conn, direction, index, off, how):
        super().__init__(conn)
        self.direction = direction
        self.index = index
        self.off = off
        self.how = how
        self.fired = False

    def forward(self, pipe, data, index):
        if self.fired and self.how == 'stall':
            return

        if not self.fired and self.dirname(pipe) == self.direction and \
                index >= self.index:
            self.fired = True
            sim = self.conn.net.sim
            sim.stats['fault_' + self.how] += 1
            sim.log('fault', self.how, self.direction, index)
            part = data[:min(self.off, len(data))]

            if self.how == 'stall':
                if part:
                    pipe.push(DATA, part)

                # nothing more is ever delivered either way
                self.conn.c2s.stalled_after = True
                self.conn.blackhole = True
                return

            if part:
                pipe.push(DATA, part)
                # let the partial packet arrive first, then lose the link
                self.conn.cut_after_delivery(pipe, self.how)
            else:
                self.conn.cut(self.how)

            return

        if getattr(self.conn, 'blackhole', False):
            return

        pipe.push(DATA, data)

    def on_ctl(self, pipe, kind):
        if getattr(self.conn, 'blackhole', False):
            return

        pipe.push(kind)
