"""Filesystem access recorder for confinement checks (C13).

A process-wide audit hook (cannot be removed once added, so it is installed
once and switched on per run) records every audited filesystem event; the
metadata calls that have no audit event (stat, lstat, readlink, statvfs,
access, listdir is audited) are wrapped in the `os` module.  Each record is
(op, path, follows_final_symlink).  Classification against a root happens at
record time, because later operations may change what a path resolves to.
"""

import os
import sys

_state = {'on': False, 'records': [], 'root': None, 'allow': (),
          'installed': False, 'busy': False}

# audit events -> (indexes of path arguments, follows final component?)
_EVENTS = {
    'open': ((0,), True),
    'os.listdir': ((0,), True),
    'os.scandir': ((0,), True),
    'os.chdir': ((0,), True),
    'os.mkdir': ((0,), False),
    'os.rmdir': ((0,), False),
    'os.remove': ((0,), False),
    'os.rename': ((0, 1), False),
    'os.symlink': ((1,), False),
    'os.link': ((0, 1), False),
    'os.chmod': ((0,), True),
    'os.chown': ((0,), True),
    'os.utime': ((0,), True),
    'os.truncate': ((0,), True),
    'os.chflags': ((0,), True),
    'os.setxattr': ((0,), True),
    'os.removexattr': ((0,), True),
    'os.mkfifo': ((0,), False),
    'os.mknod': ((0,), False),
    'shutil.copyfile': ((0, 1), True),
    'shutil.move': ((0, 1), False),
    'shutil.rmtree': ((0,), False),
}

_WRAPPED = {'stat': True, 'lstat': False, 'readlink': False, 'statvfs': True,
            'access': True}


def _record(op, path, follows):
    if _state['busy']:
        return

    if isinstance(path, int) or path is None:
        return

    _state['busy'] = True

    try:
        try:
            p = os.fsencode(path)
        except (TypeError, ValueError):
            return

        if b'\x00' in p:
            return

        ap = os.path.abspath(p)

        for pre in _state['allow']:
            if ap.startswith(pre):
                return

        # resolve now: parent fully, final component only if followed
        try:
            if follows:
                real = os.path.realpath(ap)
            else:
                head, tail = os.path.split(ap.rstrip(b'/') or b'/')
                real = os.path.join(os.path.realpath(head), tail)
        except (OSError, ValueError):
            real = ap

        root = _state['root']
        inside = real == root or real.startswith(root + b'/')
        _state['records'].append((op, p, real, inside))
    finally:
        _state['busy'] = False


def _hook(event, args):
    if not _state['on']:
        return

    spec = _EVENTS.get(event)

    if spec is None:
        return

    idxs, follows = spec

    if event == 'open' and len(args) > 2 and isinstance(args[2], int) and \
            args[2] & getattr(os, 'O_NOFOLLOW', 0):
        follows = False

    for i in idxs:
        if i < len(args):
            _record(event, args[i], follows)


def install():
    if _state['installed']:
        return

    _state['installed'] = True
    sys.addaudithook(_hook)

    # os.path.realpath() probes each component with lstat/readlink; when a
    # program canonicalises a path in order to *check* it, those probes are
    # not accesses in their own right (whatever is then done with the
    # result is recorded as usual)
    import posixpath
    real_realpath = posixpath.realpath

    def realpath(path, *args, **kwargs):
        was = _state['busy']
        _state['busy'] = True

        try:
            return real_realpath(path, *args, **kwargs)
        finally:
            _state['busy'] = was

    posixpath.realpath = realpath
    os.path.realpath = realpath

    for name, follows in _WRAPPED.items():
        orig = getattr(os, name)

        def wrapper(path, *args, _orig=orig, _name=name, _follows=follows,
                    **kwargs):
            if _state['on']:
                f = _follows

                if kwargs.get('follow_symlinks') is False:
                    f = False

                _record('os.' + _name, path, f)

            return _orig(path, *args, **kwargs)

        wrapper.__name__ = name
        setattr(os, name, wrapper)


def start(root, allow=()):
    """Begin recording; `root` is the confinement root (bytes, real path)"""

    install()
    _state['records'] = []
    _state['root'] = os.path.realpath(os.fsencode(root))
    pre = [sys.prefix, sys.base_prefix, '/verif', '/repo', '/usr/lib',
           '/usr/share', '/root/.pyenv', '/venv', '/proc/self', '/dev/null',
           '/dev/urandom', '/etc/localtime', '/usr/local/lib']
    _state['allow'] = tuple(os.fsencode(p) for p in list(pre) + list(allow))
    _state['on'] = True


def stop():
    _state['on'] = False
    recs = _state['records']
    _state['records'] = []
    return recs


def snapshot(top):
    """{relative path: (kind, size, content-hash or link target)} of a tree"""

    import hashlib
    out = {}
    was = _state['on']
    _state['on'] = False

    try:
        for dirpath, dirnames, filenames in os.walk(top):
            for n in dirnames + filenames:
                p = os.path.join(dirpath, n)
                rel = os.path.relpath(p, top)

                try:
                    st = os.lstat(p)
                    meta = (st.st_mode, st.st_uid, st.st_gid)

                    if os.path.islink(p):
                        out[rel] = ('l', os.readlink(p)) + meta
                    elif os.path.isdir(p):
                        out[rel] = ('d',) + meta
                    else:
                        with open(p, 'rb') as f:
                            out[rel] = ('f', hashlib.sha1(
                                f.read()).hexdigest(),
                                        st.st_mtime_ns) + meta
                except OSError:
                    out[rel] = ('?',)
    finally:
        _state['on'] = was

    return out
