"""Filesystem access recorder for confinement checks (C13).

A process-wide audit hook (cannot be removed once added, so it is installed
once and switched on per run) records every audited filesystem event; the
metadata calls that have no audit event (stat, lstat, readlink, statvfs,
access, listdir is audited) are wrapped in the `os` module.  Each record is
(op, path, follows_final_symlink).  Classification against a root happens at
record time, because later operations may change what a path resolves to.
"""

import os
import sys

_state = {'on': False, 'records': [], 'root': None, 'allow': (),
          'installed': False, 'busy': False}

# audit events -> (indexes of path arguments, follows final component?)
_EVENTS = {
    'open': ((0,), True),
    'os.listdir': ((0,), True),
    'os.scandir': ((0,), True),
    'os.chdir': ((0,), True),
    'os.mkdir': ((0,), False),
    'os.rmdir': ((0,), False),
    'os.remove': ((0,), False),
    'os.rename': ((0, 1), False),
    'os.symlink': ((1,), False),
    'os.link': ((0, 1), False),
    'os.chmod': ((0,), True),
    'os.chown': ((0,), True),
    'os.utime': ((0,), True),
    'os.truncate': ((0,), True),
    'os.chflags': ((0,), True),
    'os.setxattr': ((0,), True),
    'os.removexattr': ((0,), True),
    'os.mkfifo': ((0,), False),
    'os.mknod': ((0,), False),
    'shutil.copyfile': ((0, 1), True),
    'shutil.move': ((0, 1), False),
    'shutil.rmtree': ((0,), False),
}

_WRAPPED = {'stat': True, 'lstat': False, 'readlink': False, 'statvfs': True,
            'access': True}


def _record(op, path, follows):
    if _state['busy']:
        return

    if isinstance(path, int) or path is None:
        return

    _state['busy'] = True

    try:
        try:
            p = os.fsencode(path)
        except (TypeError, ValueError):
            return

        if b'\x00' in p:
            return

        ap = os.path.abspath(p)

        for pre in _state['allow']:
            if ap.startswith(pre):
                return

        # resolve now, the way the kernel does: component by component,
        # following links (the final one only if the call does), stopping
        # at the first component that is missing
        try:
            real, strayed = _walk(ap, follows)
        except (OSError, ValueError):
            real, strayed = ap, None

        root = _state['root']
        inside = strayed is None and \
            (real == root or real.startswith(root + b'/'))
        _state['records'].append((op, p, strayed or real, inside))
    finally:
        _state['busy'] = False


def _on_the_way(path):
    """Inside the root, the root, or a directory the root lies in"""

    root = _state['root']
    return path == root or path.startswith(root + b'/') or \
        root.startswith(path.rstrip(b'/') + b'/')


def _walk(ap, follows):
    """Where an absolute path leads at this moment, and the first name
       looked up on the way that lies neither inside the root nor on the way
       down to it (None if there is none).  A missing component ends the
       walk, as it ends the system call: what a lexical normalisation of
       the rest would give is never reached."""

    import stat as st_mod
    lstat = _ORIG.get('lstat', os.lstat)
    readlink = _ORIG.get('readlink', os.readlink)
    todo = [c for c in ap.split(b'/') if c]
    cur = b'/'
    strayed = None
    nlinks = 0

    while todo:
        c = todo.pop(0)

        if c == b'.':
            continue

        if c == b'..':
            cur = os.path.dirname(cur)
            continue

        nxt = os.path.join(cur, c)

        if strayed is None and not _on_the_way(nxt):
            strayed = nxt

        try:
            mode = lstat(nxt).st_mode
        except OSError:
            return nxt, strayed

        if st_mod.S_ISLNK(mode) and (todo or follows):
            nlinks += 1

            if nlinks > 40:
                return nxt, strayed

            target = readlink(nxt)

            if target.startswith(b'/'):
                cur = b'/'

            todo = [x for x in target.split(b'/') if x] + todo
            continue

        if todo and not st_mod.S_ISDIR(mode):
            return nxt, strayed

        cur = nxt

    return cur, strayed


_ORIG = {}


def _hook(event, args):
    if not _state['on']:
        return

    spec = _EVENTS.get(event)

    if spec is None:
        return

    idxs, follows = spec

    if event == 'open' and len(args) > 2 and isinstance(args[2], int) and \
            args[2] & getattr(os, 'O_NOFOLLOW', 0):
        follows = False

    for i in idxs:
        if i < len(args):
            _record(event, args[i], follows)


def install():
    if _state['installed']:
        return

    _state['installed'] = True
    sys.addaudithook(_hook)

    # os.path.realpath() probes each component with lstat/readlink; when a
    # program canonicalises a path in order to *check* it, those probes are
    # not accesses in their own right (whatever is then done with the
    # result is recorded as usual)
    import posixpath
    real_realpath = posixpath.realpath

    def realpath(path, *args, **kwargs):
        was = _state['busy']

        if _state['on'] and not was:
            # ... unless the path is a relative one: it is then anchored
            # at the working directory and not at anything that was checked
            try:
                rel = os.fsencode(path)

                if rel and not rel.startswith(b'/'):
                    _record('os.path.realpath', rel, True)
            except (TypeError, ValueError):
                pass

        _state['busy'] = True

        try:
            return real_realpath(path, *args, **kwargs)
        finally:
            _state['busy'] = was

    posixpath.realpath = realpath
    os.path.realpath = realpath

    for name, follows in _WRAPPED.items():
        orig = getattr(os, name)
        _ORIG[name] = orig

        def wrapper(path, *args, _orig=orig, _name=name, _follows=follows,
                    **kwargs):
            if _state['on']:
                f = _follows

                if kwargs.get('follow_symlinks') is False:
                    f = False

                _record('os.' + _name, path, f)

            return _orig(path, *args, **kwargs)

        wrapper.__name__ = name
        setattr(os, name, wrapper)


def start(root, allow=()):
    """Begin recording; `root` is the confinement root (bytes, real path)"""

    install()
    _state['records'] = []
    _state['root'] = os.path.realpath(os.fsencode(root))
    here = os.path.dirname(os.path.dirname(os.path.abspath(__file__)))
    pre = [sys.prefix, sys.base_prefix, '/verif', '/repo', here,
           os.environ.get('VERIF_REPO', '/repo'), '/usr/lib',
           '/usr/share', '/root/.pyenv', '/venv', '/proc/self', '/dev/null',
           '/dev/urandom', '/etc/localtime', '/usr/local/lib']
    _state['allow'] = tuple(os.fsencode(p) for p in list(pre) + list(allow))
    _state['on'] = True


def stop():
    _state['on'] = False
    recs = _state['records']
    _state['records'] = []
    return recs


def snapshot(top):
    """{relative path: (kind, size, content-hash or link target)} of a tree"""

    import hashlib
    out = {}
    was = _state['on']
    _state['on'] = False

    try:
        for dirpath, dirnames, filenames in os.walk(top):
            for n in dirnames + filenames:
                p = os.path.join(dirpath, n)
                rel = os.path.relpath(p, top)

                try:
                    st = os.lstat(p)
                    meta = (st.st_mode, st.st_uid, st.st_gid)

                    if os.path.islink(p):
                        out[rel] = ('l', os.readlink(p)) + meta
                    elif os.path.isdir(p):
                        out[rel] = ('d',) + meta
                    else:
                        with open(p, 'rb') as f:
                            out[rel] = ('f', hashlib.sha1(
                                f.read()).hexdigest(),
                                        st.st_mtime_ns) + meta
                except OSError:
                    out[rel] = ('?',)
    finally:
        _state['on'] = was

    return out
