"""Choice tape: the single source of every nondeterministic decision.

Two independently seeded streams:

  plan  -- drawn up front by a check's plan generator; the result is an
           explicit JSON plan, which is what replay files store and what the
           shrinker edits (so the plan stream is only used in generate mode).
  sched -- drawn by the simulator as the run proceeds (which external events
           are observed at each poll, in what order, how many bytes).  Stored
           as a list of ints; value 0 always means "default behaviour"
           (observe everything, creation order, all bytes), an exhausted or
           out-of-range replay value is treated as 0.

Each draw consumes a constant amount of PRNG state whatever its range, so a
change of one range cannot shift every later decision.  Logging never draws.
"""

import random


class Rng:
    """Constant-consumption PRNG wrapper"""

    def __init__(self, seed_text):
        self._r = random.Random(seed_text)

    def below(self, n):
        """Uniform-ish integer in [0, n)"""

        return self._r.getrandbits(48) % n if n > 1 else \
            (self._r.getrandbits(48) and 0)

    def between(self, lo, hi):
        return lo + self.below(hi - lo + 1)

    def chance(self, num, den=100):
        return self.below(den) < num

    def choice(self, seq):
        return seq[self.below(len(seq))]

    def weighted(self, pairs):
        """pairs: [(value, weight)]"""

        total = sum(w for _, w in pairs)
        x = self.below(total)

        for v, w in pairs:
            if x < w:
                return v
            x -= w

        return pairs[-1][0]

    def sample(self, seq, k):
        seq = list(seq)
        out = []

        for _ in range(min(k, len(seq))):
            out.append(seq.pop(self.below(len(seq))))

        return out

    def shuffle(self, seq):
        seq = list(seq)
        return self.sample(seq, len(seq))

    def bytes(self, n):
        return self._r.getrandbits(8 * n).to_bytes(n, 'big') if n else b''


def plan_rng(seed, check):
    return Rng(f'plan:{check}:{seed}')


class SchedTape:
    """The schedule stream: generate mode or replay mode"""

    def __init__(self, seed=None, replay=None, profile=None):
        self.replaying = replay is not None
        self._replay = list(replay) if replay is not None else None
        self._pos = 0
        self._rng = Rng(f'sched:{seed}') if replay is None else None
        self.rec = []
        self.profile = profile or {}
        self.limit = 200000

    def draw(self, n, p_nonzero=100):
        """Return a value in [0, n).  In generate mode the value is non-zero
           with probability p_nonzero percent (0 = default behaviour)."""

        if n <= 1:
            v = 0

            if self.replaying:
                self._pos += 1
            else:
                self._rng.below(2)
        elif self.replaying:
            v = self._replay[self._pos] if self._pos < len(self._replay) else 0
            self._pos += 1

            if not 0 <= v < n:
                v = 0
        else:
            a = self._rng.below(100)
            b = self._rng.below(n - 1)
            v = 1 + b if a < p_nonzero else 0

        if len(self.rec) < self.limit:
            self.rec.append(v)

        return v

    def trimmed(self):
        """Recorded tape with trailing zeros removed"""

        rec = self.rec
        n = len(rec)

        while n and rec[n - 1] == 0:
            n -= 1

        return rec[:n]
