"""Independent SSH binary packet codec (RFC 4253 s6, s7.2; OpenSSH
chacha20-poly1305, AES-GCM (RFC 5647 as deployed), -etm MACs).  Shares
nothing with asyncssh but PyCA primitives, hashlib, hmac, zlib.
"""

import hashlib
import hmac as _hmac
import struct
import zlib

from cryptography.hazmat.primitives.ciphers import Cipher, algorithms, modes
from cryptography.hazmat.primitives.ciphers.aead import AESGCM
from cryptography.hazmat.primitives import poly1305

try:
    from cryptography.hazmat.decrepit.ciphers import algorithms as old
except ImportError: # pragma: no cover
    old = None


class CodecError(Exception):
    """Packet is not well-formed under the negotiated algorithms"""


class NeedMore(Exception):
    """Not enough bytes for a complete packet"""


# name -> (kind, keylen, ivlen, blocksize, factory)
def _ciphers():
    c = {
        'aes128-ctr': ('ctr', 16, 16, 16, algorithms.AES),
        'aes192-ctr': ('ctr', 24, 16, 16, algorithms.AES),
        'aes256-ctr': ('ctr', 32, 16, 16, algorithms.AES),
        'aes128-cbc': ('cbc', 16, 16, 16, algorithms.AES),
        'aes192-cbc': ('cbc', 24, 16, 16, algorithms.AES),
        'aes256-cbc': ('cbc', 32, 16, 16, algorithms.AES),
        'aes128-gcm@openssh.com': ('gcm', 16, 12, 16, None),
        'aes256-gcm@openssh.com': ('gcm', 32, 12, 16, None),
        'chacha20-poly1305@openssh.com': ('chacha', 64, 0, 8, None),
    }

    if old is not None:
        c.update({
            '3des-cbc': ('cbc', 24, 8, 8, old.TripleDES),
            'blowfish-cbc': ('cbc', 16, 8, 8, old.Blowfish),
            'cast128-cbc': ('cbc', 16, 8, 8, old.CAST5),
            'seed-cbc@ssh.com': ('cbc', 16, 16, 16, old.SEED),
            'arcfour': ('rc4', 16, 0, 8, old.ARC4),
            'arcfour128': ('rc4-drop', 16, 0, 8, old.ARC4),
            'arcfour256': ('rc4-drop', 32, 0, 8, old.ARC4),
        })

    return c


CIPHERS = _ciphers()

# name -> (hash, keylen, taglen, etm)
MACS = {}

for _name, _h, _klen, _tlen in (
        ('hmac-sha2-256', 'sha256', 32, 32),
        ('hmac-sha2-512', 'sha512', 64, 64),
        ('hmac-sha1', 'sha1', 20, 20),
        ('hmac-md5', 'md5', 16, 16),
        ('hmac-sha2-256-96', 'sha256', 32, 12),
        ('hmac-sha2-512-96', 'sha512', 64, 12),
        ('hmac-sha1-96', 'sha1', 20, 12),
        ('hmac-md5-96', 'md5', 16, 12)):
    MACS[_name] = (_h, _klen, _tlen, False)
    MACS[_name + '-etm@openssh.com'] = (_h, _klen, _tlen, True)

MACS.update({
    'hmac-sha256-2@ssh.com': ('sha256', 32, 32, False),
    'hmac-sha224@ssh.com': ('sha224', 28, 28, False),
    'hmac-sha256@ssh.com': ('sha256', 16, 32, False),
    'hmac-sha384@ssh.com': ('sha384', 48, 48, False),
    'hmac-sha512@ssh.com': ('sha512', 64, 64, False),
})

COMPRESSIONS = ('none', 'zlib', 'zlib@openssh.com')


def supported(enc, mac, cmp_alg='none'):
    if enc not in CIPHERS or cmp_alg not in COMPRESSIONS:
        return False

    if CIPHERS[enc][0] in ('gcm', 'chacha'):
        return True

    return mac in MACS


def kdf(hash_name, k_enc, h, letter, session_id, n):
    """RFC 4253 s7.2.  k_enc is K already encoded as it enters the hash
       (mpint, or string for the hybrid PQ exchanges)."""

    out = b''

    while len(out) < n:
        hh = hashlib.new(hash_name)
        hh.update(k_enc)
        hh.update(h)
        hh.update(out if out else letter + session_id)
        out += hh.digest()

    return out[:n]


def key_sizes(enc, mac):
    kind, klen, ivlen, _bs, _f = CIPHERS[enc]

    if kind in ('gcm', 'chacha'):
        return klen, ivlen, 0

    return klen, ivlen, MACS[mac][1]


class CipherState:
    """One direction of an encrypted transport"""

    def __init__(self, enc, mac, key, iv, mac_key):
        self.enc = enc
        self.kind, self.klen, self.ivlen, self.bs, factory = CIPHERS[enc]
        self.key = key
        self.aead = self.kind in ('gcm', 'chacha')

        if self.aead:
            self.etm = False
            self.taglen = 16
            self.mac_hash = None
        else:
            self.mac_hash, _mk, self.taglen, self.etm = MACS[mac]
            self.mac_key = mac_key

        self.block = max(8, self.bs)
        self._first = None

        if self.kind == 'ctr':
            c = Cipher(factory(key), modes.CTR(iv))
            self._enc = c.encryptor()
            self._dec = c.decryptor()
        elif self.kind == 'cbc':
            c = Cipher(factory(key), modes.CBC(iv))
            self._enc = c.encryptor()
            self._dec = c.decryptor()
        elif self.kind in ('rc4', 'rc4-drop'):
            c = Cipher(factory(key), None)
            self._enc = c.encryptor()
            self._dec = c.decryptor()

            if self.kind == 'rc4-drop':
                self._enc.update(bytes(1536))
                self._dec.update(bytes(1536))
        elif self.kind == 'gcm':
            self._gcm = AESGCM(key)
            self._fixed = iv[:4]
            self._ctr = int.from_bytes(iv[4:], 'big')

    # -- helpers ----------------------------------------------------------------------

    def _mac(self, seq, data):
        tag = _hmac.new(self.mac_key, struct.pack('>I', seq) + data,
                        self.mac_hash).digest()
        return tag[:self.taglen]

    def _chacha(self, key, seq, counter, data):
        nonce = struct.pack('<Q', counter) + struct.pack('>Q', seq)
        c = Cipher(algorithms.ChaCha20(key, nonce), None).encryptor()
        return c.update(data)

    # -- decode -------------------------------------------------------------------------

    def decode(self, seq, buf):
        """Decode one packet at the start of buf.  Returns (padlen, payload,
           padding, consumed); raises NeedMore or CodecError."""

        if self.kind == 'chacha':
            if len(buf) < 4:
                raise NeedMore()

            k2, k1 = self.key[:32], self.key[32:]
            length = struct.unpack('>I', self._chacha(k1, seq, 0,
                                                      buf[:4]))[0]

            if length < 1 or length > 1 << 20:
                raise CodecError('bad chacha packet length %d' % length)

            total = 4 + length + 16

            if len(buf) < total:
                raise NeedMore()

            polykey = self._chacha(k2, seq, 0, bytes(32))
            p = poly1305.Poly1305(polykey)
            p.update(buf[:4 + length])

            if not _hmac.compare_digest(p.finalize(), buf[4 + length:total]):
                raise CodecError('poly1305 tag mismatch (seq %d)' % seq)

            plain = self._chacha(k2, seq, 1, buf[4:4 + length])

            if length % 8:
                raise CodecError('chacha: length %d not a multiple of 8' %
                                 length)
        elif self.kind == 'gcm':
            if len(buf) < 4:
                raise NeedMore()

            length = struct.unpack('>I', buf[:4])[0]

            if length < 1 or length > 1 << 20:
                raise CodecError('bad gcm packet length %d' % length)

            total = 4 + length + 16

            if len(buf) < total:
                raise NeedMore()

            nonce = self._fixed + (self._ctr & ((1 << 64) - 1)).to_bytes(
                8, 'big')

            try:
                plain = self._gcm.decrypt(nonce, buf[4:total], buf[:4])
            except Exception:
                raise CodecError('gcm tag mismatch (seq %d)' % seq) from None

            self._ctr += 1

            if length % 16:
                raise CodecError('gcm: length %d not a multiple of 16' %
                                 length)
        elif self.etm:
            if len(buf) < 4:
                raise NeedMore()

            length = struct.unpack('>I', buf[:4])[0]

            if length < 1 or length > 1 << 20:
                raise CodecError('bad etm packet length %d' % length)

            total = 4 + length + self.taglen

            if len(buf) < total:
                raise NeedMore()

            if not _hmac.compare_digest(self._mac(seq, buf[:4 + length]),
                                        buf[4 + length:total]):
                raise CodecError('etm mac mismatch (seq %d)' % seq)

            if length % self.block:
                raise CodecError('etm: length %d not a multiple of %d' %
                                 (length, self.block))

            plain = self._dec.update(buf[4:4 + length])
        else:
            if self._first is None:
                if len(buf) < self.block:
                    raise NeedMore()

                # the first block is decrypted exactly once (the cipher is
                # a stream/chained state); remember it until the rest of
                # the packet has arrived
                self._first = self._dec.update(buf[:self.block])

            first = self._first
            length = struct.unpack('>I', first[:4])[0]

            if length < 1 or length > 1 << 20:
                raise CodecError('bad packet length %d' % length)

            total = 4 + length + self.taglen

            if (4 + length) % self.block:
                raise CodecError('length+4 = %d not a multiple of %d' %
                                 (4 + length, self.block))

            if len(buf) < total:
                raise NeedMore()

            self._first = None
            rest = self._dec.update(buf[self.block:4 + length])
            whole = first + rest

            if not _hmac.compare_digest(self._mac(seq, whole),
                                        buf[4 + length:total]):
                raise CodecError('mac mismatch (seq %d)' % seq)

            plain = whole[4:]

        padlen = plain[0]

        if padlen < 4:
            raise CodecError('padding length %d < 4' % padlen)

        if padlen + 1 > len(plain):
            raise CodecError('padding length %d exceeds packet' % padlen)

        payload = plain[1:len(plain) - padlen]
        padding = plain[len(plain) - padlen:]
        return padlen, payload, padding, total

    # -- encode -------------------------------------------------------------------------

    def encode(self, seq, payload, pad_byte=b'\x00', extra_pad_blocks=0):
        hdr_in_block = 0 if (self.aead or self.etm) else 4
        padlen = -(hdr_in_block + 1 + len(payload)) % self.block

        if padlen < 4:
            padlen += self.block

        padlen += extra_pad_blocks * self.block

        if padlen > 255:
            padlen -= self.block * ((padlen - 255 + self.block - 1) //
                                    self.block)

        body = bytes([padlen]) + payload + pad_byte * padlen
        hdr = struct.pack('>I', len(body))

        if self.kind == 'chacha':
            k2, k1 = self.key[:32], self.key[32:]
            enc_len = self._chacha(k1, seq, 0, hdr)
            enc_body = self._chacha(k2, seq, 1, body)
            polykey = self._chacha(k2, seq, 0, bytes(32))
            p = poly1305.Poly1305(polykey)
            p.update(enc_len + enc_body)
            return enc_len + enc_body + p.finalize()

        if self.kind == 'gcm':
            nonce = self._fixed + (self._ctr & ((1 << 64) - 1)).to_bytes(
                8, 'big')
            self._ctr += 1
            return hdr + self._gcm.encrypt(nonce, body, hdr)

        if self.etm:
            ct = self._enc.update(body)
            return hdr + ct + self._mac(seq, hdr + ct)

        mac = self._mac(seq, hdr + body)
        return self._enc.update(hdr + body) + mac


class Plain:
    """Cleartext framing before the first NEWKEYS"""

    block = 8
    taglen = 0

    def decode(self, seq, buf):
        if len(buf) < 5:
            raise NeedMore()

        length = struct.unpack('>I', buf[:4])[0]

        if length < 1 or length > 1 << 20:
            raise CodecError('bad cleartext packet length %d' % length)

        if len(buf) < 4 + length:
            raise NeedMore()

        if (4 + length) % 8:
            raise CodecError('cleartext length+4 = %d not a multiple of 8' %
                             (4 + length))

        padlen = buf[4]

        if padlen < 4:
            raise CodecError('cleartext padding %d < 4' % padlen)

        if padlen + 1 > length:
            raise CodecError('cleartext padding exceeds packet')

        return padlen, bytes(buf[5:4 + length - padlen]), \
            bytes(buf[4 + length - padlen:4 + length]), 4 + length

    def encode(self, seq, payload, pad_byte=b'\x00', extra_pad_blocks=0):
        padlen = -(5 + len(payload)) % 8

        if padlen < 4:
            padlen += 8

        padlen += 8 * extra_pad_blocks
        body = bytes([padlen]) + payload + pad_byte * padlen
        return struct.pack('>I', len(body)) + body


class Inflater:
    def __init__(self):
        self._z = zlib.decompressobj()

    def __call__(self, data):
        try:
            return self._z.decompress(data)
        except zlib.error as exc:
            raise CodecError('inflate failed: %s' % exc) from None


class Deflater:
    def __init__(self):
        self._z = zlib.compressobj()

    def __call__(self, data):
        return self._z.compress(data) + self._z.flush(zlib.Z_SYNC_FLUSH)


# -- negotiation (DESIGN.md A.1) --------------------------------------------------------

PSEUDO = {b'ext-info-c', b'ext-info-s', b'kex-strict-c-v00@openssh.com',
          b'kex-strict-s-v00@openssh.com'}


def parse_kexinit(payload):
    """payload includes the message type byte.  Returns dict of lists."""

    from ..sshwire import Reader

    r = Reader(payload, 1)
    cookie = r.d[r.p:r.p + 16]
    r.p += 16
    names = ['kex', 'hostkey', 'enc_cs', 'enc_sc', 'mac_cs', 'mac_sc',
             'cmp_cs', 'cmp_sc', 'lang_cs', 'lang_sc']
    out = {'cookie': bytes(cookie)}

    for n in names:
        out[n] = r.namelist()

    out['first_follows'] = r.boolean()
    out['reserved'] = r.u32()
    out['trailing'] = r.rest()
    return out


def choose(client_list, server_list):
    for c in client_list:
        if c in PSEUDO:
            continue

        if c in server_list:
            return c

    return None


def negotiate(ckex, skex):
    """Expected outcome of a handshake from the two parsed KEXINITs"""

    res = {}
    res['kex'] = choose(ckex['kex'], skex['kex'])
    res['hostkey'] = choose(ckex['hostkey'], skex['hostkey'])

    for d in ('cs', 'sc'):
        res['enc_' + d] = choose(ckex['enc_' + d], skex['enc_' + d])
        res['cmp_' + d] = choose(ckex['cmp_' + d], skex['cmp_' + d])
        enc = res['enc_' + d]

        if enc is not None and CIPHERS.get(enc.decode(), ('x',))[0] in \
                ('gcm', 'chacha'):
            res['mac_' + d] = b''
        else:
            res['mac_' + d] = choose(ckex['mac_' + d], skex['mac_' + d])

    res['strict'] = b'kex-strict-c-v00@openssh.com' in ckex['kex'] and \
        b'kex-strict-s-v00@openssh.com' in skex['kex']
    return res


KEX_HASH = {
    'curve25519-sha256': 'sha256', 'curve25519-sha256@libssh.org': 'sha256',
    'curve448-sha512': 'sha512',
    'ecdh-sha2-nistp256': 'sha256', 'ecdh-sha2-nistp384': 'sha384',
    'ecdh-sha2-nistp521': 'sha512', 'ecdh-sha2-1.3.132.0.10': 'sha256',
    'diffie-hellman-group-exchange-sha256': 'sha256',
    'diffie-hellman-group-exchange-sha1': 'sha1',
    'diffie-hellman-group-exchange-sha224@ssh.com': 'sha224',
    'diffie-hellman-group-exchange-sha384@ssh.com': 'sha384',
    'diffie-hellman-group-exchange-sha512@ssh.com': 'sha512',
    'diffie-hellman-group1-sha1': 'sha1',
    'diffie-hellman-group14-sha1': 'sha1',
    'diffie-hellman-group14-sha256': 'sha256',
    'diffie-hellman-group15-sha512': 'sha512',
    'diffie-hellman-group16-sha512': 'sha512',
    'diffie-hellman-group17-sha512': 'sha512',
    'diffie-hellman-group18-sha512': 'sha512',
    'diffie-hellman-group14-sha256@ssh.com': 'sha256',
    'diffie-hellman-group14-sha224@ssh.com': 'sha224',
    'diffie-hellman-group15-sha256@ssh.com': 'sha256',
    'diffie-hellman-group15-sha384@ssh.com': 'sha384',
    'diffie-hellman-group16-sha384@ssh.com': 'sha384',
    'diffie-hellman-group16-sha512@ssh.com': 'sha512',
    'diffie-hellman-group18-sha512@ssh.com': 'sha512',
    'rsa2048-sha256': 'sha256', 'rsa1024-sha1': 'sha1',
    'mlkem768x25519-sha256': 'sha256', 'mlkem768nistp256-sha256': 'sha256',
    'mlkem1024nistp384-sha384': 'sha384',
}


def make_states(neg, kex_hash, k_enc, h, session_id):
    """CipherState for each direction from the exchange outputs"""

    out = {}

    for d, (iv_l, key_l, mac_l) in (('cs', (b'A', b'C', b'E')),
                                     ('sc', (b'B', b'D', b'F'))):
        enc = neg['enc_' + d].decode()
        mac = neg['mac_' + d].decode()

        if not supported(enc, mac):
            out[d] = None
            continue

        klen, ivlen, mklen = key_sizes(enc, mac)
        iv = kdf(kex_hash, k_enc, h, iv_l, session_id, ivlen)
        key = kdf(kex_hash, k_enc, h, key_l, session_id, klen)
        mkey = kdf(kex_hash, k_enc, h, mac_l, session_id, mklen)
        out[d] = CipherState(enc, mac, key, iv, mkey)

    return out
