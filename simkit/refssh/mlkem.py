"""ML-KEM encapsulation (FIPS 203, algorithms 14 and 17) in plain Python,
written from the standard.  Used where the simulation needs the
encapsulation randomness `m` to come from the seed: the result is checked
against the real primitive on every use, because the peer decapsulates with
PyCA and the handshake only completes if both derive the same secret."""

import hashlib

Q = 3329
N = 256
PARAMS = {'768': (3, 2, 2, 10, 4), '1024': (4, 2, 2, 11, 5)}


def _bitrev7(i):
    return int('{:07b}'.format(i)[::-1], 2)


ZETAS = [pow(17, _bitrev7(i), Q) for i in range(128)]
GAMMAS = [pow(17, 2 * _bitrev7(i) + 1, Q) for i in range(128)]


def _ntt(f):
    f = list(f)
    k = 1
    ln = 128

    while ln >= 2:
        for start in range(0, N, 2 * ln):
            z = ZETAS[k]
            k += 1

            for j in range(start, start + ln):
                t = z * f[j + ln] % Q
                f[j + ln] = (f[j] - t) % Q
                f[j] = (f[j] + t) % Q

        ln //= 2

    return f


def _intt(f):
    f = list(f)
    k = 127
    ln = 2

    while ln <= 128:
        for start in range(0, N, 2 * ln):
            z = ZETAS[k]
            k -= 1

            for j in range(start, start + ln):
                t = f[j]
                f[j] = (t + f[j + ln]) % Q
                f[j + ln] = z * (f[j + ln] - t) % Q

        ln *= 2

    return [x * 3303 % Q for x in f]


def _mul(a, b):
    c = [0] * N

    for i in range(128):
        a0, a1, b0, b1 = a[2 * i], a[2 * i + 1], b[2 * i], b[2 * i + 1]
        c[2 * i] = (a0 * b0 + a1 * b1 % Q * GAMMAS[i]) % Q
        c[2 * i + 1] = (a0 * b1 + a1 * b0) % Q

    return c


def _add(a, b):
    return [(x + y) % Q for x, y in zip(a, b)]


def _sample_ntt(seed34):
    buf = hashlib.shake_128(seed34).digest(1344)
    out = []
    p = 0

    while len(out) < N:
        if p + 3 > len(buf):
            buf = hashlib.shake_128(seed34).digest(len(buf) * 2)

        c0, c1, c2 = buf[p], buf[p + 1], buf[p + 2]
        p += 3
        d1 = c0 + 256 * (c1 % 16)
        d2 = c1 // 16 + 16 * c2

        if d1 < Q:
            out.append(d1)

        if d2 < Q and len(out) < N:
            out.append(d2)

    return out


def _cbd(data, eta):
    bits = int.from_bytes(data, 'little')
    out = []

    for i in range(N):
        x = y = 0

        for j in range(eta):
            x += (bits >> (2 * i * eta + j)) & 1
            y += (bits >> (2 * i * eta + eta + j)) & 1

        out.append((x - y) % Q)

    return out


def _prf(eta, s, b):
    return hashlib.shake_256(s + bytes([b])).digest(64 * eta)


def _decode(data, d):
    bits = int.from_bytes(data, 'little')
    mask = (1 << d) - 1
    return [(bits >> (d * i)) & mask for i in range(N)]


def _encode(vals, d):
    bits = 0

    for i, v in enumerate(vals):
        bits |= v << (d * i)

    return bits.to_bytes(32 * d, 'little')


def _compress(x, d):
    return (((x << d) + Q // 2) // Q) % (1 << d)


def _decompress(y, d):
    return (y * Q + (1 << (d - 1))) >> d


def encaps(variant, ek, m):
    """(shared secret K, ciphertext c) for encapsulation key `ek` and the
       32-byte message `m`; raises ValueError if `ek` fails the modulus
       check"""

    k, eta1, eta2, du, dv = PARAMS[variant]

    if len(ek) != 384 * k + 32 or len(m) != 32:
        raise ValueError('bad length')

    t_hat = []

    for i in range(k):
        part = ek[384 * i:384 * (i + 1)]
        poly = _decode(part, 12)

        if any(c >= Q for c in poly):
            raise ValueError('encapsulation key fails the modulus check')

        t_hat.append(poly)

    rho = ek[384 * k:]
    g = hashlib.sha3_512(m + hashlib.sha3_256(ek).digest()).digest()
    shared, r = g[:32], g[32:]

    a_hat = [[_sample_ntt(rho + bytes([j, i])) for j in range(k)]
             for i in range(k)]
    n = 0
    y = []

    for _ in range(k):
        y.append(_cbd(_prf(eta1, r, n), eta1))
        n += 1

    e1 = []

    for _ in range(k):
        e1.append(_cbd(_prf(eta2, r, n), eta2))
        n += 1

    e2 = _cbd(_prf(eta2, r, n), eta2)
    y_hat = [_ntt(p) for p in y]
    u = []

    for i in range(k):
        acc = [0] * N

        for j in range(k):
            # transpose of A: entry (j, i)
            acc = _add(acc, _mul(a_hat[j][i], y_hat[j]))

        u.append(_add(_intt(acc), e1[i]))

    mu = [_decompress(b, 1) for b in _decode(m, 1)]
    acc = [0] * N

    for i in range(k):
        acc = _add(acc, _mul(t_hat[i], y_hat[i]))

    v = _add(_add(_intt(acc), e2), mu)
    c1 = b''.join(_encode([_compress(x, du) for x in poly], du)
                  for poly in u)
    c2 = _encode([_compress(x, dv) for x in v], dv)
    return shared, c1 + c2
