"""OpenSSH certificate builder written from PROTOCOL.certkeys, field by
field, sharing no code with asyncssh.  Used by checks that need a
certificate whose every field is chosen by the plan (C05 restrictions)."""

import base64
import struct

from ..sshwire import Reader, string, u32
from .peer import public_blob, sig_algs_for, sign

CERT_USER = 1
CERT_HOST = 2


def u64(v):
    return struct.pack('>Q', v)


def cert_alg(priv_or_pub):
    """Certificate algorithm name of a key"""

    return Reader(public_blob(priv_or_pub)).string() + \
        b'-cert-v01@openssh.com'


def build_cert(user_key, ca_priv, *, ctype=CERT_USER, principals=(),
               after=0, before=(1 << 64) - 1, critical=(), extensions=(),
               serial=1, key_id=b'verif', sig_alg=None, corrupt_sig=False):
    """Return the certificate blob.  `critical` is a sequence of
       (name, value-bytes or None) and `extensions` a sequence of names;
       both are emitted in lexical order as the format requires."""

    kblob = public_blob(user_key)
    r = Reader(kblob)
    alg = r.string()
    keyfields = kblob[r.p:]

    crit = b''.join(string(n) + string(string(v) if v is not None else b'')
                    for n, v in sorted(critical))
    ext = b''.join(string(n) + string(b'') for n in sorted(extensions))

    body = string(alg + b'-cert-v01@openssh.com') + string(b'N' * 32) + \
        keyfields + u64(serial) + u32(ctype) + string(key_id) + \
        string(b''.join(string(p.encode()) for p in principals)) + \
        u64(after) + u64(before) + string(crit) + string(ext) + \
        string(b'') + string(public_blob(ca_priv))

    sig = sign(ca_priv, sig_alg or sig_algs_for(ca_priv)[0], body)

    if corrupt_sig:
        sig = sig[:-1] + bytes([sig[-1] ^ 1])

    return body + string(sig)


def openssh_line(blob):
    """The one-line public text form (what ssh-keygen writes to -cert.pub)"""

    return Reader(blob).string() + b' ' + base64.b64encode(blob) + b'\n'
