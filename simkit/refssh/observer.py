"""Passive on-path decoder: sits on the wire of one connection, parses the
cleartext handshake itself, takes (K, H) from the escrow tap at NEWKEYS,
derives the keys with its own KDF and decodes every packet either endpoint
emits (one packet per transport write).  Also the base of the tamper wires,
which need packet boundaries and regions.
"""

from ..net import Wire, DATA
from . import codec
from .codec import CodecError, NeedMore


class DirState:
    def __init__(self):
        self.seq = 0
        self.state = codec.Plain()
        self.version = None
        self.epoch = 0              # number of NEWKEYS seen in this direction
        self.inflate = None
        self.cmp = 'none'
        self.cmp_active = False
        self.packets = []           # (epoch, seq, type, payload, wire_len)
        self.undecodable = False
        self.kexinit = None
        self.kexinit_epoch = -1
        self.last_padlen = None
        self.last_len = -1


class Observer(Wire):
    def __init__(self, conn, sim, decode=True):
        super().__init__(conn)
        self.sim = sim
        self.decode = decode
        self.d = {'c2s': DirState(), 's2c': DirState()}
        self.errors = []
        self.neg = None
        self.kex_hash = None
        self.strict = False
        self.first_neg = None
        self.key_epochs = []        # (k_enc, h) per completed exchange
        self.on_packet = None       # hook(dirname, epoch, seq, payload)
        sim.observers.append(self)

    # -- hints from the endpoints (documented dependence) ----------------------------

    def _sender_conn(self, dirname):
        want = 'C' if dirname == 'c2s' else 'S'

        for label, c in self.sim.conns.items():
            if label.startswith(want):
                return label, c

        return None, None

    def _escrow(self, dirname, epoch):
        label, _ = self._sender_conn(dirname)
        lst = self.sim.escrow.get(label, [])
        return lst[epoch] if epoch < len(lst) else None

    # -- wire -----------------------------------------------------------------------------

    def forward(self, pipe, data, index):
        self.cur_index = index

        if self.decode:
            try:
                self.observe(self.dirname(pipe), data)
            except CodecError as exc:
                self.errors.append((self.dirname(pipe), index, str(exc)))
                self.d[self.dirname(pipe)].undecodable = True

        self.emit(pipe, data, index)

    def emit(self, pipe, data, index):
        pipe.push(DATA, data)

    def observe(self, dirname, data):
        ds = self.d[dirname]

        if ds.undecodable:
            return

        if ds.version is None:
            if not data.endswith(b'\n'):
                raise CodecError('first write is not a version line: %r' %
                                 data[:40])

            ds.version = data.rstrip(b'\r\n')
            return

        if ds.state is None:
            ds.undecodable = True
            return

        try:
            padlen, payload, padding, used = ds.state.decode(ds.seq, data)
        except NeedMore:
            raise CodecError('write does not hold a complete packet '
                             '(%d bytes)' % len(data)) from None

        if used != len(data):
            raise CodecError('write holds %d bytes beyond one packet' %
                             (len(data) - used))

        ds.last_padlen = padlen
        ds.last_len = len(data)

        if ds.cmp_active:
            if ds.inflate is None:
                ds.inflate = codec.Inflater()

            payload = ds.inflate(payload)
        elif ds.cmp == 'zlib@openssh.com' and ds.epoch > 0:
            _, conn = self._sender_conn(dirname)

            if conn is not None and conn._auth_complete:
                ds.cmp_active = True
                ds.inflate = ds.inflate or codec.Inflater()
                payload = ds.inflate(payload)

        if not payload:
            raise CodecError('empty payload')

        ptype = payload[0]
        ds.packets.append((ds.epoch, ds.seq, ptype, payload, len(data)))

        # wire write index of each decoded packet (parallel to ds.packets)
        if not hasattr(ds, 'packet_index'):
            ds.packet_index = []

        ds.packet_index.append(getattr(self, 'cur_index', None))

        if self.on_packet is not None:
            self.on_packet(dirname, ds.epoch, ds.seq, payload)

        ds.seq = (ds.seq + 1) & 0xffffffff

        if ptype == 20:
            ds.kexinit = codec.parse_kexinit(payload)
            ds.kexinit_raw = payload
            ds.kexinit_epoch = ds.epoch
            other = self.d['s2c' if dirname == 'c2s' else 'c2s']

            if other.kexinit is not None and \
                    other.kexinit_epoch == ds.epoch and \
                    getattr(other, 'kexinit_used', -1) != ds.epoch:
                ck = self.d['c2s'].kexinit
                sk = self.d['s2c'].kexinit
                self.neg = codec.negotiate(ck, sk)

                if self.first_neg is None:
                    self.first_neg = self.neg
                    self.strict = self.neg['strict']
        elif ptype == 21:
            ds.newkeys_write = getattr(self, 'cur_index', None)
            self.switch_keys(dirname)

    def switch_keys(self, dirname):
        ds = self.d[dirname]
        neg = self.neg
        esc = self._escrow(dirname, ds.epoch)
        ds.epoch += 1

        if self.strict:
            ds.seq = 0

        if neg is None or esc is None or neg['kex'] is None:
            ds.state = None
            return

        k_enc, h, session_id = esc
        kex_hash = codec.KEX_HASH.get(neg['kex'].decode())
        d = 'cs' if dirname == 'c2s' else 'sc'

        if kex_hash is None or neg['enc_' + d] is None:
            ds.state = None
            return

        states = codec.make_states(neg, kex_hash, k_enc, h, session_id)
        ds.state = states[d]
        ds.keys = (k_enc, h, session_id, kex_hash, dict(neg))
        cmp_alg = (neg['cmp_' + d] or b'none').decode()

        # RFC 4253 s6.2: the compression context restarts with each exchange
        ds.inflate = None
        ds.cmp = cmp_alg
        ds.cmp_active = cmp_alg == 'zlib'
