"""RefPeer: an independent SSH transport endpoint (client or server role)
for the simulated network.  Version exchange, KEXINIT negotiation,
curve25519 / NIST ECDH / finite-field DH (fixed groups and group exchange),
exchange hash, RFC 4253 key derivation, host key signatures (ed25519, RSA,
ECDSA), binary packet protocol with every cipher/MAC of codec.py, strict KEX,
zlib.  Shares nothing with asyncssh but PyCA primitives and hashlib.

It is scriptable: `await peer.recv()` / `peer.send(payload)`, and can emit
raw or malformed traffic while holding the session keys (hostile peer).
"""

import asyncio
import hashlib
import os

from cryptography.hazmat.primitives import hashes, serialization
from cryptography.hazmat.primitives.asymmetric import ec, ed25519, padding
from cryptography.hazmat.primitives.asymmetric import rsa, x25519, utils
from cryptography.exceptions import InvalidSignature

from ..sshwire import Reader, Short, string, u32, mpint, namelist, boolean
from . import codec
from .codec import CodecError, NeedMore

KEYDIR = os.path.join(os.path.dirname(os.path.dirname(
    os.path.abspath(__file__))), 'keys')


class PeerError(Exception):
    """The other side did something an SSH implementation must not do"""


class Closed(Exception):
    """Connection ended (EOF/reset) while waiting for a message"""


# RFC 3526 / RFC 2409 groups
def _group(hexstr):
    return int(''.join(hexstr.split()), 16)


GROUP14 = _group("""
FFFFFFFF FFFFFFFF C90FDAA2 2168C234 C4C6628B 80DC1CD1 29024E08 8A67CC74
020BBEA6 3B139B22 514A0879 8E3404DD EF9519B3 CD3A431B 302B0A6D F25F1437
4FE1356D 6D51C245 E485B576 625E7EC6 F44C42E9 A637ED6B 0BFF5CB6 F406B7ED
EE386BFB 5A899FA5 AE9F2411 7C4B1FE6 49286651 ECE45B3D C2007CB8 A163BF05
98DA4836 1C55D39A 69163FA8 FD24CF5F 83655D23 DCA3AD96 1C62F356 208552BB
9ED52907 7096966D 670C354E 4ABC9804 F1746C08 CA18217C 32905E46 2E36CE3B
E39E772C 180E8603 9B2783A2 EC07A28F B5C55DF0 6F4C52C9 DE2BCBF6 95581718
3995497C EA956AE5 15D22618 98FA0510 15728E5A 8AACAA68 FFFFFFFF FFFFFFFF""")
GROUP1 = _group("""
FFFFFFFF FFFFFFFF C90FDAA2 2168C234 C4C6628B 80DC1CD1 29024E08 8A67CC74
020BBEA6 3B139B22 514A0879 8E3404DD EF9519B3 CD3A431B 302B0A6D F25F1437
4FE1356D 6D51C245 E485B576 625E7EC6 F44C42E9 A637ED6B 0BFF5CB6 F406B7ED
EE386BFB 5A899FA5 AE9F2411 7C4B1FE6 49286651 ECE65381 FFFFFFFF FFFFFFFF""")

DH_GROUPS = {
    'diffie-hellman-group14-sha256': (GROUP14, 'sha256'),
    'diffie-hellman-group14-sha1': (GROUP14, 'sha1'),
    'diffie-hellman-group1-sha1': (GROUP1, 'sha1'),
}
GEX = {'diffie-hellman-group-exchange-sha256': 'sha256',
       'diffie-hellman-group-exchange-sha1': 'sha1'}
ECDH = {'ecdh-sha2-nistp256': (ec.SECP256R1, 'sha256'),
        'ecdh-sha2-nistp384': (ec.SECP384R1, 'sha384'),
        'ecdh-sha2-nistp521': (ec.SECP521R1, 'sha512')}
X25519 = {'curve25519-sha256': 'sha256',
          'curve25519-sha256@libssh.org': 'sha256'}

# post-quantum hybrids (draft-ietf-sshm-mlkem-hybrid-kex): the ML-KEM
# primitive itself is PyCA's, the exchange around it is written here
#   name -> (ML-KEM variant, classical part, hash, pk bytes, ct bytes)
HYBRID = {
    'mlkem768x25519-sha256': ('768', 'x25519', 'sha256', 1184, 1088),
    'mlkem768nistp256-sha256': ('768', ec.SECP256R1, 'sha256', 1184, 1088),
    'mlkem1024nistp384-sha384': ('1024', ec.SECP384R1, 'sha384', 1568, 1568),
}

KEX_SUPPORTED = list(X25519) + list(ECDH) + list(DH_GROUPS) + list(GEX) + \
    list(HYBRID)

_HASHES = {'sha1': hashes.SHA1, 'sha256': hashes.SHA256,
           'sha384': hashes.SHA384, 'sha512': hashes.SHA512}

_priv_cache = {}


def load_private(name):
    k = _priv_cache.get(name)

    if k is None:
        with open(os.path.join(KEYDIR, name), 'rb') as f:
            k = _priv_cache[name] = serialization.load_ssh_private_key(
                f.read(), None)

    return k


def public_blob(priv_or_pub):
    """SSH wire encoding of a PyCA public key"""

    pub = priv_or_pub.public_key() if hasattr(priv_or_pub, 'public_key') \
        else priv_or_pub

    if isinstance(pub, ed25519.Ed25519PublicKey):
        raw = pub.public_bytes(serialization.Encoding.Raw,
                               serialization.PublicFormat.Raw)
        return string(b'ssh-ed25519') + string(raw)

    if isinstance(pub, rsa.RSAPublicKey):
        n = pub.public_numbers()
        return string(b'ssh-rsa') + mpint(n.e) + mpint(n.n)

    if isinstance(pub, ec.EllipticCurvePublicKey):
        cid = {'secp256r1': b'nistp256', 'secp384r1': b'nistp384',
               'secp521r1': b'nistp521'}[pub.curve.name]
        pt = pub.public_bytes(serialization.Encoding.X962,
                              serialization.PublicFormat.UncompressedPoint)
        return string(b'ecdsa-sha2-' + cid) + string(cid) + string(pt)

    raise ValueError('unsupported key type')


def sig_algs_for(priv):
    if isinstance(priv, ed25519.Ed25519PrivateKey):
        return [b'ssh-ed25519']

    if isinstance(priv, rsa.RSAPrivateKey):
        return [b'rsa-sha2-256', b'rsa-sha2-512', b'ssh-rsa']

    cid = {'secp256r1': b'nistp256', 'secp384r1': b'nistp384',
           'secp521r1': b'nistp521'}[priv.curve.name]
    return [b'ecdsa-sha2-' + cid]


def sign(priv, alg, data):
    """SSH signature blob (string alg || string sig)"""

    if isinstance(priv, ed25519.Ed25519PrivateKey):
        return string(b'ssh-ed25519') + string(priv.sign(data))

    if isinstance(priv, rsa.RSAPrivateKey):
        h = {b'rsa-sha2-256': hashes.SHA256, b'rsa-sha2-512': hashes.SHA512,
             b'ssh-rsa': hashes.SHA1}[alg]
        return string(alg) + string(priv.sign(data, padding.PKCS1v15(),
                                              h()))

    h = {'secp256r1': hashes.SHA256, 'secp384r1': hashes.SHA384,
         'secp521r1': hashes.SHA512}[priv.curve.name]
    der = priv.sign(data, ec.ECDSA(h(), deterministic_signing=True))
    r, s = utils.decode_dss_signature(der)
    return string(alg) + string(mpint(r) + mpint(s))


def verify(key_blob, sig_blob, data):
    """Verify an SSH signature blob against an SSH public key blob"""

    try:
        kr = Reader(key_blob)
        kalg = kr.string()
        sr = Reader(sig_blob)
        salg = sr.string()
        sig = sr.string()

        if not sr.at_end():
            return False

        if kalg == b'ssh-ed25519':
            if salg != b'ssh-ed25519':
                return False

            pub = ed25519.Ed25519PublicKey.from_public_bytes(kr.string())
            pub.verify(sig, data)
            return True

        if kalg == b'ssh-rsa':
            e = kr.mpint()
            n = kr.mpint()
            h = {b'rsa-sha2-256': hashes.SHA256,
                 b'rsa-sha2-512': hashes.SHA512,
                 b'ssh-rsa': hashes.SHA1}.get(salg)

            if h is None:
                return False

            rsa.RSAPublicNumbers(e, n).public_key().verify(
                sig, data, padding.PKCS1v15(), h())
            return True

        if kalg.startswith(b'ecdsa-sha2-'):
            if salg != kalg:
                return False

            cid = kr.string()
            pt = kr.string()
            curve, h = {b'nistp256': (ec.SECP256R1, hashes.SHA256),
                        b'nistp384': (ec.SECP384R1, hashes.SHA384),
                        b'nistp521': (ec.SECP521R1, hashes.SHA512)}[cid]
            pub = ec.EllipticCurvePublicKey.from_encoded_point(curve(), pt)
            rr = Reader(sig)
            r, s = rr.mpint(), rr.mpint()
            pub.verify(utils.encode_dss_signature(r, s), data, ec.ECDSA(h()))
            return True
    except (InvalidSignature, Short, ValueError, KeyError):
        return False

    return False


class RefPeer(asyncio.Protocol):
    """One endpoint.  role: 'client' or 'server'."""

    def __init__(self, sim, role, *, version=b'SSH-2.0-RefPeer_1.0',
                 kex=None, hostkey_algs=None, enc=None, mac=None, cmp=None,
                 host_keys=None, strict=True, ext_info=False, rand=None):
        self.sim = sim
        self.role = role
        self.version = version
        self.kex_algs = list(kex or ['curve25519-sha256'])
        self.enc_algs = list(enc or ['aes128-ctr'])
        self.mac_algs = list(mac or ['hmac-sha2-256'])
        self.cmp_algs = list(cmp or ['none'])
        self.host_keys = list(host_keys or [])      # PyCA private keys
        self.hostkey_algs = list(hostkey_algs or
                                 ['ssh-ed25519', 'rsa-sha2-256',
                                  'rsa-sha2-512', 'ecdsa-sha2-nistp256'])
        self.strict = strict
        self.ext_info = ext_info
        self.rand = rand or (lambda n: os.urandom(n))
        self.transport = None
        self.buf = b''
        self.peer_version = None
        self.inbox = []
        self.waiter = None
        self.closed = None          # None | exception or 'eof'
        self.send_seq = 0
        self.recv_seq = 0
        self.send_state = codec.Plain()
        self.recv_state = codec.Plain()
        self.deflate = None
        self.inflate = None
        self.cmp_send = 'none'
        self.cmp_recv = 'none'
        self.authed = False
        self.session_id = None
        self.my_kexinit = None
        self.peer_kexinit = None
        self.neg = None
        self.strict_on = False
        self.kex_count = 0
        self.sent = []              # payloads sent (post-compression input)
        self.received = []          # payloads received
        self.errors = []
        self.host_key_blob = None   # server's K_S as seen/used
        self.wire_checks = True
        self.trusted_host_blobs = None
        self.keys_hk = None
        self._hold = False
        self.bug = None
        self.host_cert_blob = None      # present a certificate as K_S
        self.host_cert_alg = None

    # -- asyncio.Protocol -------------------------------------------------------------

    def connection_made(self, transport):
        self.transport = transport
        transport.write(self.version + b'\r\n')

    def data_received(self, data):
        self.buf += data

        try:
            self._pump()
        except Exception as exc: # pylint: disable=broad-except
            # a defect of this stub, not of the system under test
            import traceback
            self.bug = traceback.format_exc()
            self._close(exc)

    def eof_received(self):
        self._close('eof')
        return False

    def connection_lost(self, exc):
        self._close(exc or 'lost')

    def _close(self, why):
        if self.closed is None:
            self.closed = why

        if self.waiter is not None and not self.waiter.done():
            self.waiter.set_result(None)

    # -- receive path ---------------------------------------------------------------------

    def _pump(self):
        if self.peer_version is None:
            idx = self.buf.find(b'\n')

            if idx < 0:
                return

            line = self.buf[:idx].rstrip(b'\r')
            self.buf = self.buf[idx + 1:]

            if not line.startswith(b'SSH-'):
                # banner line before the version: allowed from servers
                return self._pump()

            self.peer_version = line

        while self.buf and not self._hold:
            try:
                padlen, payload, padding_bytes, used = \
                    self.recv_state.decode(self.recv_seq, self.buf)
            except NeedMore:
                break
            except CodecError as exc:
                self.errors.append('seq %d: %s' % (self.recv_seq, exc))
                self.buf = b''
                self._close(PeerError(str(exc)))
                break

            self.buf = self.buf[used:]

            if self._inflate_active():
                if self.inflate is None:
                    self.inflate = codec.Inflater()

                try:
                    payload = self.inflate(payload)
                except CodecError as exc:
                    self.errors.append(str(exc))
                    self._close(PeerError(str(exc)))
                    break

            if not payload:
                self.errors.append('empty payload at seq %d' % self.recv_seq)

            self.recv_seq = (self.recv_seq + 1) & 0xffffffff
            self.received.append(payload)
            self.sim.log('ref-R', self.role, payload[0] if payload else -1,
                         len(payload))

            if payload and payload[0] == 21:
                # what follows is under keys the handshake coroutine has
                # not installed yet: stop parsing until it has
                self._hold = True

            self.inbox.append(payload)

        if self.inbox and self.waiter is not None and \
                not self.waiter.done():
            self.waiter.set_result(None)

    def _inflate_active(self):
        return self.cmp_recv == 'zlib' or \
            (self.cmp_recv == 'zlib@openssh.com' and self.authed)

    def _deflate_active(self):
        return self.cmp_send == 'zlib' or \
            (self.cmp_send == 'zlib@openssh.com' and self.authed)

    async def recv(self, skip=(2, 4)):
        """Next message payload (IGNORE/DEBUG skipped unless skip=())"""

        while True:
            while self.inbox:
                p = self.inbox.pop(0)

                if p and p[0] in skip:
                    continue

                return p

            if self.closed is not None:
                raise Closed(repr(self.closed))

            self.waiter = self.sim.loop.create_future()
            await self.waiter
            self.waiter = None

    async def expect(self, *types):
        p = await self.recv()

        if not p or p[0] not in types:
            raise PeerError('expected message %r, got %r' %
                            (types, p[:1] and p[0]))

        return p

    # -- send path -------------------------------------------------------------------------

    def send(self, payload, *, raw_after=b'', pad_blocks=0, injected=False):
        if self.transport is None or self.transport.is_closing():
            return

        self.sent.append(payload)
        self.sim.log('ref-S', self.role, payload[0] if payload else -1,
                     len(payload))
        body = payload

        if self._deflate_active():
            if self.deflate is None:
                self.deflate = codec.Deflater()

            body = self.deflate(payload)

        pkt = self.send_state.encode(self.send_seq, body,
                                     extra_pad_blocks=pad_blocks)
        self.send_seq = (self.send_seq + 1) & 0xffffffff
        self.transport.write(pkt + raw_after)

        if payload and payload[0] == 21 and not injected:
            self._switch_send()

    def send_raw(self, data):
        if self.transport is not None and not self.transport.is_closing():
            self.transport.write(data)

    def close(self):
        if self.transport is not None:
            self.transport.close()

    # -- key exchange ------------------------------------------------------------------------

    def kexinit_payload(self):
        kex = [k.encode() for k in self.kex_algs]

        if self.kex_count == 0:
            if self.ext_info:
                kex.append(b'ext-info-c' if self.role == 'client'
                           else b'ext-info-s')

            if self.strict:
                kex.append(b'kex-strict-c-v00@openssh.com'
                           if self.role == 'client'
                           else b'kex-strict-s-v00@openssh.com')

        if self.role == 'server' and self.host_cert_blob is not None:
            hk = [self.host_cert_alg]
        elif self.role == 'server':
            hk = []

            for k in self.host_keys:
                hk.extend(sig_algs_for(k))
        else:
            hk = [a.encode() for a in self.hostkey_algs]

        enc = [a.encode() for a in self.enc_algs]
        mac = [a.encode() for a in self.mac_algs]
        cmp_ = [a.encode() for a in self.cmp_algs]
        return bytes([20]) + self.rand(16) + namelist(kex) + namelist(hk) + \
            namelist(enc) + namelist(enc) + namelist(mac) + namelist(mac) + \
            namelist(cmp_) + namelist(cmp_) + namelist([]) + namelist([]) + \
            boolean(False) + u32(0)

    def send_kexinit_now(self):
        """Send our KEXINIT ahead of handshake(already_sent=True)"""

        self.my_kexinit = self.kexinit_payload()
        self.send(self.my_kexinit)

    async def handshake(self, peer_kexinit=None, already_sent=False):
        """Run one key exchange (initial or re-exchange).  If the peer's
           KEXINIT was already received, pass it in."""

        if not already_sent:
            self.my_kexinit = self.kexinit_payload()
            self.send(self.my_kexinit)

        if peer_kexinit is None:
            peer_kexinit = await self.expect(20)

        self.peer_kexinit = peer_kexinit
        mine = codec.parse_kexinit(self.my_kexinit)
        theirs = codec.parse_kexinit(peer_kexinit)

        if self.role == 'client':
            ck, sk, i_c, i_s = mine, theirs, self.my_kexinit, peer_kexinit
            v_c, v_s = self.version, self.peer_version
        else:
            ck, sk, i_c, i_s = theirs, mine, peer_kexinit, self.my_kexinit
            v_c, v_s = self.peer_version, self.version

        neg = codec.negotiate(ck, sk)

        for f in ('kex', 'hostkey', 'enc_cs', 'enc_sc', 'mac_cs', 'mac_sc',
                  'cmp_cs', 'cmp_sc'):
            if neg[f] is None:
                raise PeerError('no common algorithm for ' + f)

        if self.kex_count == 0:
            self.strict_on = neg['strict']

        self.neg = neg
        kex = neg['kex'].decode()
        prefix = string(v_c) + string(v_s) + string(i_c) + string(i_s)

        if self.role == 'client':
            k_enc, h, hname = await self._kex_client(kex, prefix, neg)
        else:
            k_enc, h, hname = await self._kex_server(kex, prefix, neg)

        if self.session_id is None:
            self.session_id = h

        self.kex_count += 1
        self._pending = codec.make_states(neg, hname, k_enc, h,
                                          self.session_id)
        self.keys_hk = (k_enc, h)
        self.send(bytes([21]))
        await self.expect(21)
        self._switch_recv()
        self._hold = False
        self._pump()

    def _switch_send(self):
        d = 'cs' if self.role == 'client' else 'sc'
        self.send_state = self._pending[d]
        self.cmp_send = self.neg['cmp_' + d].decode()
        self.deflate = None

        if self.strict_on:
            self.send_seq = 0

    def _switch_recv(self):
        d = 'sc' if self.role == 'client' else 'cs'
        self.recv_state = self._pending[d]
        self.cmp_recv = self.neg['cmp_' + d].decode()
        self.inflate = None

        if self.strict_on:
            self.recv_seq = 0

    def _hash(self, hname, *parts):
        hh = hashlib.new(hname)

        for p in parts:
            hh.update(p)

        return hh.digest()

    def _pick_host_key(self, neg):
        want = neg['hostkey']

        if self.host_cert_blob is not None:
            k = self.host_keys[0]
            return k, sig_algs_for(k)[0]

        for k in self.host_keys:
            if want in sig_algs_for(k):
                return k, want

        raise PeerError('no host key for ' + repr(want))

    async def _kex_client(self, kex, prefix, neg):
        if kex in X25519 or kex in ECDH:
            if kex in X25519:
                hname = X25519[kex]
                priv = x25519.X25519PrivateKey.from_private_bytes(
                    self.rand(32))
                q_c = priv.public_key().public_bytes(
                    serialization.Encoding.Raw,
                    serialization.PublicFormat.Raw)
            else:
                curve, hname = ECDH[kex]
                d = 1 + int.from_bytes(self.rand(24), 'big')
                priv = ec.derive_private_key(d, curve())
                q_c = priv.public_key().public_bytes(
                    serialization.Encoding.X962,
                    serialization.PublicFormat.UncompressedPoint)

            self.send(bytes([30]) + string(q_c))
            r = Reader(await self.expect(31), 1)
            k_s, q_s, sig = r.string(), r.string(), r.string()

            if kex in X25519:
                shared = priv.exchange(
                    x25519.X25519PublicKey.from_public_bytes(q_s))
            else:
                shared = priv.exchange(
                    ec.ECDH(), ec.EllipticCurvePublicKey.from_encoded_point(
                        curve(), q_s))

            k_enc = mpint(int.from_bytes(shared, 'big'))
            h = self._hash(hname, prefix, string(k_s), string(q_c),
                           string(q_s), k_enc)
        elif kex in HYBRID:
            from cryptography.hazmat.primitives.asymmetric import mlkem
            variant, classical, hname, pklen, ctlen = HYBRID[kex]
            pq_cls = getattr(mlkem, 'MLKEM%sPrivateKey' % variant)
            pq_priv = pq_cls.from_seed_bytes(self.rand(64))
            pq_pub = pq_priv.public_key().public_bytes_raw()

            if classical == 'x25519':
                priv = x25519.X25519PrivateKey.from_private_bytes(
                    self.rand(32))
                q_c = priv.public_key().public_bytes(
                    serialization.Encoding.Raw,
                    serialization.PublicFormat.Raw)
            else:
                d = 1 + int.from_bytes(self.rand(24), 'big')
                priv = ec.derive_private_key(d, classical())
                q_c = priv.public_key().public_bytes(
                    serialization.Encoding.X962,
                    serialization.PublicFormat.UncompressedPoint)

            c_init = pq_pub + q_c
            self.send(bytes([30]) + string(c_init))
            r = Reader(await self.expect(31), 1)
            k_s, s_reply, sig = r.string(), r.string(), r.string()

            if len(s_reply) <= ctlen:
                raise PeerError('hybrid reply too short')

            try:
                pq_secret = pq_priv.decapsulate(s_reply[:ctlen])
            except ValueError as exc:
                raise PeerError('ML-KEM ciphertext rejected: %s' %
                                exc) from None

            q_s = s_reply[ctlen:]

            if classical == 'x25519':
                shared = priv.exchange(
                    x25519.X25519PublicKey.from_public_bytes(q_s))
            else:
                shared = priv.exchange(
                    ec.ECDH(), ec.EllipticCurvePublicKey.from_encoded_point(
                        classical(), q_s))

            k_enc = string(hashlib.new(hname, pq_secret + shared).digest())
            h = self._hash(hname, prefix, string(k_s), string(c_init),
                           string(s_reply), k_enc)
        elif kex in DH_GROUPS or kex in GEX:
            gex_part = b''

            if kex in GEX:
                hname = GEX[kex]
                self.send(bytes([34]) + u32(2048) + u32(2048) + u32(4096))
                r = Reader(await self.expect(31), 1)
                p, g = r.mpint(), r.mpint()
                gex_part = u32(2048) + u32(2048) + u32(4096) + mpint(p) + \
                    mpint(g)
                init, reply = 32, 33
            else:
                p, hname = DH_GROUPS[kex]
                g = 2
                init, reply = 30, 31

            x = 2 + int.from_bytes(self.rand(40), 'big')
            e = pow(g, x, p)
            self.send(bytes([init]) + mpint(e))
            r = Reader(await self.expect(reply), 1)
            k_s, f, sig = r.string(), r.mpint(), r.string()

            if not 1 < f < p - 1:
                raise PeerError('DH f out of range')

            k_enc = mpint(pow(f, x, p))
            h = self._hash(hname, prefix, string(k_s), gex_part, mpint(e),
                           mpint(f), k_enc)
        else:
            raise PeerError('RefPeer does not implement ' + kex)

        self.host_key_blob = k_s

        if not verify(k_s, sig, h):
            raise PeerError('host key signature does not verify over H')

        if self.trusted_host_blobs is not None and \
                k_s not in self.trusted_host_blobs:
            raise PeerError('host key not trusted')

        return k_enc, h, hname

    async def _kex_server(self, kex, prefix, neg):
        hk, hk_alg = self._pick_host_key(neg)
        k_s = self.host_cert_blob if self.host_cert_blob is not None \
            else public_blob(hk)
        self.host_key_blob = k_s

        if kex in X25519 or kex in ECDH:
            r = Reader(await self.expect(30), 1)
            q_c = r.string()

            if kex in X25519:
                hname = X25519[kex]
                priv = x25519.X25519PrivateKey.from_private_bytes(
                    self.rand(32))
                q_s = priv.public_key().public_bytes(
                    serialization.Encoding.Raw,
                    serialization.PublicFormat.Raw)
                shared = priv.exchange(
                    x25519.X25519PublicKey.from_public_bytes(q_c))
            else:
                curve, hname = ECDH[kex]
                d = 1 + int.from_bytes(self.rand(24), 'big')
                priv = ec.derive_private_key(d, curve())
                q_s = priv.public_key().public_bytes(
                    serialization.Encoding.X962,
                    serialization.PublicFormat.UncompressedPoint)
                shared = priv.exchange(
                    ec.ECDH(), ec.EllipticCurvePublicKey.from_encoded_point(
                        curve(), q_c))

            k_enc = mpint(int.from_bytes(shared, 'big'))
            h = self._hash(hname, prefix, string(k_s), string(q_c),
                           string(q_s), k_enc)
            self.send(bytes([31]) + string(k_s) + string(q_s) +
                      string(sign(hk, hk_alg, h)))
        elif kex in HYBRID:
            from cryptography.hazmat.primitives.asymmetric import mlkem
            variant, classical, hname, pklen, ctlen = HYBRID[kex]
            r = Reader(await self.expect(30), 1)
            c_init = r.string()

            if len(c_init) <= pklen:
                raise PeerError('hybrid init too short')

            try:
                # encapsulation written from FIPS 203 (refssh/mlkem.py) so
                # that its randomness comes from the seed; the client's
                # decapsulation is the cross-check
                from . import mlkem as ref_mlkem
                pq_secret, ct = ref_mlkem.encaps(variant, c_init[:pklen],
                                                 self.rand(32))
            except ValueError as exc:
                raise PeerError('ML-KEM public key rejected: %s' %
                                exc) from None

            q_c = c_init[pklen:]

            if classical == 'x25519':
                priv = x25519.X25519PrivateKey.from_private_bytes(
                    self.rand(32))
                q_s = priv.public_key().public_bytes(
                    serialization.Encoding.Raw,
                    serialization.PublicFormat.Raw)
                shared = priv.exchange(
                    x25519.X25519PublicKey.from_public_bytes(q_c))
            else:
                d = 1 + int.from_bytes(self.rand(24), 'big')
                priv = ec.derive_private_key(d, classical())
                q_s = priv.public_key().public_bytes(
                    serialization.Encoding.X962,
                    serialization.PublicFormat.UncompressedPoint)
                shared = priv.exchange(
                    ec.ECDH(), ec.EllipticCurvePublicKey.from_encoded_point(
                        classical(), q_c))

            s_reply = ct + q_s
            k_enc = string(hashlib.new(hname, pq_secret + shared).digest())
            h = self._hash(hname, prefix, string(k_s), string(c_init),
                           string(s_reply), k_enc)
            self.send(bytes([31]) + string(k_s) + string(s_reply) +
                      string(sign(hk, hk_alg, h)))
        elif kex in DH_GROUPS or kex in GEX:
            gex_part = b''

            if kex in GEX:
                hname = GEX[kex]
                r = Reader(await self.expect(34), 1)
                mn, n, mx = r.u32(), r.u32(), r.u32()
                p, g = GROUP14, 2
                self.send(bytes([31]) + mpint(p) + mpint(g))
                gex_part = u32(mn) + u32(n) + u32(mx) + mpint(p) + mpint(g)
                init, reply = 32, 33
            else:
                p, hname = DH_GROUPS[kex]
                g = 2
                init, reply = 30, 31

            r = Reader(await self.expect(init), 1)
            e = r.mpint()

            if not 1 < e < p - 1:
                raise PeerError('DH e out of range')

            y = 2 + int.from_bytes(self.rand(40), 'big')
            f = pow(g, y, p)
            k_enc = mpint(pow(e, y, p))
            h = self._hash(hname, prefix, string(k_s), gex_part, mpint(e),
                           mpint(f), k_enc)
            self.send(bytes([reply]) + string(k_s) + mpint(f) +
                      string(sign(hk, hk_alg, h)))
        else:
            raise PeerError('RefPeer does not implement ' + kex)

        return k_enc, h, hname
