"""The simulator object: owns the loop, the network, the schedule tape, the
trace and the statistics; implements the poll step."""

import asyncio
import collections
import hashlib
import os

from .loop import SimLoop, OneShot, reset_counters
from .net import SimNet
from .tape import SchedTape


class WorkBudgetExceeded(KeyboardInterrupt):
    """A single callback emitted more packets than any legal amount of
       input could justify: the endpoint is spinning.  KeyboardInterrupt
       subclass so that neither asyncssh's `except Exception` nor asyncio's
       callback wrapper swallows it."""


class Sim:
    """One simulated world = one run"""

    def __init__(self, sched_seed=0, sched_replay=None, profile=None):
        reset_counters()
        self.profile = dict(profile or {})
        self.tape = SchedTape(sched_seed, sched_replay, self.profile)
        self.p_sched = self.profile.get('p_sched', 30)
        self.p_chunk = self.profile.get('p_chunk', 50)
        self.max_iterations = self.profile.get('max_iterations', 20000)
        self.max_sim_time = self.profile.get('max_sim_time', 36000.0)
        self.stats = collections.Counter()
        self.probes = collections.Counter()
        self.sources = []
        self._src_seq = 0
        self.step = 0
        self.after_iteration = None
        self.trace = []
        self._digest = hashlib.sha256()
        self.trace_keep = self.profile.get('trace_keep', int(os.environ.get('VERIF_TRACE', '400')))
        self.tracked = []
        self.loop_errors = []
        self.loop = SimLoop(self)
        self.loop.set_exception_handler(self._exc_handler)
        self.net = SimNet(self)
        self.sched_sigs = hashlib.sha256()
        self.conn_count = 0
        self.conns = {}
        self.pkts = {}
        self.on_packet = None
        self.escrow = {}
        self.work_limit = 0           # packets one callback may emit (0=off)
        self._work_step = -1
        self._work_pkts = 0
        self.spin = None
        self.kex_used = {}
        self.observers = []

    # -- trace ---------------------------------------------------------------------

    def log(self, *fields):
        """Append an event to the trace (and the digest).  Never draws."""

        rec = (self.step,) + fields
        self._digest.update(repr(rec).encode())

        if len(self.trace) < self.trace_keep:
            self.trace.append(rec)

    def count_sent_packet(self, label):
        if self.step != self._work_step:
            self._work_step = self.step
            self._work_pkts = 0

        self._work_pkts += 1

        if self.work_limit and self._work_pkts > self.work_limit:
            self.spin = '%s emitted more than %d packets from a single ' \
                'callback (loop step %d)' % (label, self.work_limit,
                                             self.step)
            self._work_pkts = 0
            raise WorkBudgetExceeded(self.spin)

    def digest(self):
        return self._digest.hexdigest()[:24]

    def _exc_handler(self, loop, context):
        exc = context.get('exception')
        msg = context.get('message', '')
        self.loop_errors.append((msg, repr(exc)))
        self.log('loop-exception', msg, repr(exc))

    # -- sources -------------------------------------------------------------------

    def add_source(self, src):
        self._src_seq += 1
        src.seq = self._src_seq
        self.sources.append(src)

        if len(self.sources) > 64:
            self.sources = [s for s in self.sources
                            if not getattr(s, 'done', False) and
                            not getattr(s, 'dead', False) and
                            not getattr(s, 'cancelled', False)]

        return src

    def next_event_time(self):
        best = None

        for src in self.sources:
            t = src.next_time()

            if t is not None and (best is None or t < best):
                best = t

        return best

    def app_event(self, label, at=None):
        """A future completed by the scheduler (application-side completion:
           validator result ready, scripted app action due...)."""

        fut = self.loop.create_future()

        def fn():
            if not fut.done():
                fut.set_result(None)

        at = None if at is None else self.loop.time() + at
        self.add_source(OneShot('app', fn, at=at, label=label))
        return fut

    async def pause(self, label='app', delay=None):
        """Yield to the scheduler: resumes when the scheduler observes it"""

        await self.app_event(label, delay)

    # -- the poll step ---------------------------------------------------------------

    def poll(self, now, may_skip_all):
        enabled = [s for s in self.sources if s.enabled(now)]

        if not enabled:
            return ()

        draw = self.tape.draw
        mode = draw(4, self.p_sched)
        picked = []

        if mode == 3 and not may_skip_all:
            mode = 1

        if mode == 0:
            picked = [(s, 0) for s in enabled]
        elif mode == 1:
            s = enabled[draw(len(enabled))]
            c = draw(8, self.p_chunk) if s.wants_chunk() else 0
            picked = [(s, c)]
        elif mode == 2:
            for s in enabled:
                v = draw(3)

                if v == 1:
                    continue

                c = draw(8) if v == 2 and s.wants_chunk() else 0
                picked.append((s, c))

            if len(picked) > 1:
                r = draw(len(picked))
                picked = picked[r:] + picked[:r]

            if not picked and not may_skip_all:
                picked = [(enabled[0], 0)]
        else:
            self.stats['poll_skipped'] += 1

        if mode:
            self.stats['poll_mode%d' % mode] += 1

        for s, c in picked:
            self.sched_sigs.update(b'%d:%d;' % (s.seq, c))

        self.sched_sigs.update(b'|')
        return picked

    def chunk_size(self, choice, avail, first):
        """Map a scheduler chunk choice to a byte count in 1..avail.
           'first' is the size of the first sender write still queued (asyncssh
           emits one SSH packet per write, so this is a packet boundary)."""

        if choice == 0:
            n = avail
        elif choice == 1:
            n = 1
        elif choice == 2:
            n = first
        elif choice == 3:
            n = first - 1
        elif choice == 4:
            n = first + 1
        elif choice == 5:
            n = 4
        elif choice == 6:
            n = avail // 2
        else:
            n = 5 + (self.step % 11)

        return max(1, min(n, avail))

    # -- tracked awaits ------------------------------------------------------------

    def track(self, name, coro):
        """Run a coroutine as a task whose completion is required at
           quiescence; returns the task."""

        task = self.loop.create_task(coro)
        task.sim_name = name
        self.tracked.append(task)
        return task

    # -- run -----------------------------------------------------------------------

    def run(self, main_coro):
        """Run until main finishes *and* the world is quiescent, or a cap is
           hit.  Returns the main task."""

        loop = self.loop
        asyncio.set_event_loop(loop)
        main = loop.create_task(main_coro)
        main.sim_name = 'main'
        self.main = main

        try:
            loop.run_forever()
        finally:
            asyncio.set_event_loop(None)

        return main

    def hung(self):
        """Names of tracked awaits (and main) that are not done"""

        out = [t.sim_name for t in self.tracked if not t.done()]

        if not self.main.done():
            out.append('main')

        return out

    def close(self):
        """Tear the world down (cancel leftovers quietly)"""

        loop = self.loop

        try:
            asyncio.set_event_loop(loop)
            pending = [t for t in asyncio.all_tasks(loop) if not t.done()]

            for t in pending:
                t.cancel()

            self.max_iterations = loop.iterations + 200
            self.work_limit = self.work_limit or 5000
            self.tape = SchedTape(replay=[])
            loop._stopping = False
            loop.quiescent = False

            if pending:
                try:
                    loop.run_forever()
                except (Exception, WorkBudgetExceeded): # pylint: disable=W0703
                    pass

            for t in pending:
                if t.done() and not t.cancelled():
                    t.exception()
                elif not t.done():
                    # still there after cancellation (a run that hit its
                    # cap): finish the coroutine off here rather than leave
                    # it to the collector, which would run its clean-up code
                    # in the middle of a later run
                    try:
                        t.get_coro().close()
                    except BaseException: # pylint: disable=W0703
                        pass
        finally:
            asyncio.set_event_loop(None)
            loop.close()
