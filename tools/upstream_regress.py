#!/usr/bin/env python3
"""Run the repository's own test files (all of them, not only the pinned 161)
against /repo's working tree and list the failing test ids, to compare a
"fix:" commit with the tree before it.  The environment lacks the bcrypt
module the test utilities import; tools/fakebcrypt/ holds a stand-in that is
good enough for the tests that only need the import to succeed.

  upstream_regress.py [repo-dir] [file ...]     prints FAILED ids per file
"""

import os
import subprocess
import sys

HERE = os.path.dirname(os.path.abspath(__file__))


def main():
    repo = sys.argv[1] if len(sys.argv) > 1 else '/repo'
    files = sys.argv[2:] or sorted(
        os.path.join('tests', f) for f in os.listdir(os.path.join(repo,
                                                                  'tests'))
        if f.startswith('test_') and f.endswith('.py'))
    env = dict(os.environ, PYTHONPATH=os.pathsep.join(
        [repo, os.path.join(HERE, 'fakebcrypt')]))

    for f in files:
        r = subprocess.run(['timeout', '900', '/venv/bin/python', '-m',
                            'pytest', '-q', '--timeout=60', f], cwd=repo,
                           env=env, capture_output=True, text=True)
        lines = r.stdout.splitlines()
        failed = sorted(l.split(' - ')[0] for l in lines
                        if l.startswith(('FAILED', 'ERROR')))
        print('%s: %s' % (f, lines[-1] if lines else 'no output'))

        for l in failed:
            print('   ', l)


if __name__ == '__main__':
    main()
