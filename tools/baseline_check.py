#!/usr/bin/env python3
"""Run the repository's pinned test suite (guard off: there are no source
hooks) and compare with /root/.vp/BASELINE.json stable_pass."""

import json
import subprocess
import sys
import tempfile
import xml.etree.ElementTree as ET


def main():
    base = json.load(open('/root/.vp/BASELINE.json'))
    stable = set(base['stable_pass'])
    out = tempfile.mktemp(suffix='.xml', dir='/tmp')
    cmd = base['cmd'].replace('<file>', out)
    subprocess.run(cmd, shell=True, capture_output=True, text=True)
    passed = set()

    for tc in ET.parse(out).iter('testcase'):
        name = tc.get('classname') + '::' + tc.get('name')

        if not any(ch.tag in ('failure', 'error', 'skipped') for ch in tc):
            passed.add(name)

    missing = sorted(stable - passed)
    print('stable_pass: %d, passing now: %d of them, missing: %r' %
          (len(stable), len(stable & passed), missing[:10]))
    return 1 if missing else 0


if __name__ == '__main__':
    sys.exit(main())
