#!/usr/bin/env python3
"""Run every registered check (quick or thorough tier) one after the other,
as the harness would; prints one line per check and a summary."""

import json
import os
import subprocess
import sys
import time

HERE = os.path.dirname(os.path.dirname(os.path.abspath(__file__)))


def main():
    tier = sys.argv[1] if len(sys.argv) > 1 else 'quick'
    man = json.load(open(os.path.join(HERE, 'MANIFEST.json')))
    bad = 0

    for c in man['checks']:
        cmd = c['quick_cmd'] if tier == 'quick' else c['thorough_cmd']
        t0 = time.time()
        r = subprocess.run(cmd, shell=True, cwd=HERE, capture_output=True,
                           text=True)
        tail = [l for l in r.stdout.splitlines() if l.strip()][-1:] or ['']
        print('%s rc=%d %5.1fs %s' % (c['property_id'], r.returncode,
                                      time.time() - t0, tail[0][:150]))
        sys.stdout.flush()

        if r.returncode != 0:
            bad += 1
            print(r.stdout[-1500:])
            print(r.stderr[-1500:])

    print('done: %d checks, %d not ok' % (len(man['checks']), bad))
    return 1 if bad else 0


if __name__ == '__main__':
    sys.exit(main())
