"""Stand-in for the bcrypt package (absent in this sandbox): enough for the
test suite's key encryption and password hashing, NOT real bcrypt."""
import hashlib, os
__version__ = '4.0.0-standin'
def gensalt(rounds=12, prefix=b'2b'):
    return b'$2b$12$' + hashlib.sha256(os.urandom(16)).hexdigest()[:22].encode()
def hashpw(password, salt):
    return salt[:29] + hashlib.sha256(salt[:29] + password).hexdigest()[:31].encode()
def checkpw(password, hashed):
    return hashpw(password, hashed) == hashed
def kdf(password, salt, desired_key_bytes, rounds, ignore_few_rounds=False):
    return hashlib.pbkdf2_hmac('sha512', password, salt, max(1, rounds), desired_key_bytes)
