#!/usr/bin/env python3
"""Ingest and evaluate a seeded breaking change.

  seeded.py ingest  <ID> <worktree>   copy patch.diff + demo.py into
                                      seeded/<ID>/, verify the demo fails
                                      with the change and passes without it
                                      (in the worktree)
  seeded.py tests   <ID> <worktree>   run the pinned test suite in the
                                      worktree with the change applied and
                                      compare with BASELINE stable_pass
  seeded.py check   <ID> [budget_s] [check-ID ...]
                                      apply seeded/<ID>/patch.diff to /repo,
                                      run the registered quick check(s) of
                                      the property (or those named), undo

Results are merged into seeded/<ID>/meta.json under "ran".
"""

import json
import os
import shutil
import subprocess
import sys
import tempfile
import time
import xml.etree.ElementTree as ET

HERE = os.path.dirname(os.path.dirname(os.path.abspath(__file__)))
PY = '/venv/bin/python'


def sh(cmd, **kw):
    return subprocess.run(cmd, shell=True, capture_output=True, text=True,
                          **kw)


def meta_path(sid):
    return os.path.join(HERE, 'seeded', sid, 'meta.json')


def load_meta(sid):
    try:
        return json.load(open(meta_path(sid)))
    except FileNotFoundError:
        return {'id': sid, 'ran': {}}


def save_meta(sid, meta):
    with open(meta_path(sid), 'w') as f:
        json.dump(meta, f, indent=1, sort_keys=True)
        f.write('\n')


def run_demo(wt, demo):
    r = sh('timeout 300 %s %s' % (PY, demo), cwd=wt,
           env=dict(os.environ, PYTHONPATH=wt, HOME='/nonexistent'))
    return r.returncode, (r.stdout + r.stderr)[-1500:]


def ingest(sid, wt):
    d = os.path.join(HERE, 'seeded', sid)
    os.makedirs(d, exist_ok=True)
    diff = sh('git -C %s diff' % wt).stdout

    if not diff.strip():
        print('no diff in', wt)
        return 1

    with open(os.path.join(d, 'patch.diff'), 'w') as f:
        f.write(diff)

    shutil.copy(os.path.join(wt, 'demo.py'), os.path.join(d, 'demo.py'))
    demo = os.path.join(wt, 'demo.py')
    rc_with, out_with = run_demo(wt, demo)
    assert sh('git -C %s apply -R %s' %
              (wt, os.path.join(d, 'patch.diff'))).returncode == 0

    try:
        rc_without, out_without = run_demo(wt, demo)
    finally:
        assert sh('git -C %s apply %s' %
                  (wt, os.path.join(d, 'patch.diff'))).returncode == 0

    meta = load_meta(sid)
    meta['ran']['demo_with_change'] = {'rc': rc_with,
                                       'tail': out_with[-600:]}
    meta['ran']['demo_without_change'] = {'rc': rc_without,
                                          'tail': out_without[-300:]}
    save_meta(sid, meta)
    print('%s: demo with change rc=%d, without rc=%d' %
          (sid, rc_with, rc_without))
    return 0 if rc_with != 0 and rc_without == 0 else 1


def tests(sid, wt):
    base = json.load(open('/root/.vp/BASELINE.json'))
    stable = set(base['stable_pass'])
    out = tempfile.mktemp(suffix='.xml', dir='/tmp')
    cmd = base['cmd'].replace('<file>', out).replace('cd /repo', 'cd ' + wt)
    t0 = time.time()
    sh(cmd, cwd=wt, env=dict(os.environ, PYTHONPATH=wt))
    passed = set()

    for tc in ET.parse(out).iter('testcase'):
        if not any(ch.tag in ('failure', 'error', 'skipped') for ch in tc):
            passed.add(tc.get('classname') + '::' + tc.get('name'))

    os.unlink(out)
    missing = sorted(stable - passed)
    meta = load_meta(sid)
    meta['ran']['pinned_tests_with_change'] = {
        'cmd': base['cmd'], 'stable_pass': len(stable),
        'still_passing': len(stable & passed), 'missing': missing[:10],
        'wall_s': round(time.time() - t0)}
    save_meta(sid, meta)
    print('%s: %d/%d stable tests pass with the change' %
          (sid, len(stable & passed), len(stable)))
    return 1 if missing else 0


def check(sid, budget, which):
    d = os.path.join(HERE, 'seeded', sid)
    patch = os.path.join(d, 'patch.diff')
    man = json.load(open(os.path.join(HERE, 'MANIFEST.json')))
    prop = sid[:3]
    which = which or [prop]
    assert sh('git -C /repo status --porcelain').stdout.strip() == '', \
        '/repo not clean'
    assert sh('git -C /repo apply %s' % patch).returncode == 0
    meta = load_meta(sid)
    res = meta['ran'].setdefault('checks', {})

    try:
        for c in man['checks']:
            if c['property_id'] not in which:
                continue

            t0 = time.time()
            r = sh(c['quick_cmd'], cwd=HERE,
                   env=dict(os.environ, VERIF_NO_EVIDENCE='1',
                            VERIF_BUDGET_S=str(budget)))
            vio = [l for l in r.stdout.splitlines()
                   if l.startswith(('VIOLATION', 'violation:'))]
            res[c['property_id']] = {
                'cmd': c['quick_cmd'], 'budget_s': budget,
                'rc': r.returncode, 'caught': r.returncode == 1 and
                any(l.startswith('VIOLATION') for l in vio),
                'wall_s': round(time.time() - t0, 1),
                'lines': [l[:300] for l in vio[:4]]}
            print('%s vs %s: rc=%d %s' % (sid, c['property_id'],
                                          r.returncode,
                                          (vio or ['-'])[0][:200]))

            if r.returncode not in (0, 1):
                print(r.stdout[-800:], r.stderr[-800:])
    finally:
        sh('git -C /repo checkout -- .')
        assert sh('git -C /repo status --porcelain').stdout.strip() == ''

    save_meta(sid, meta)
    return 0


def main():
    verb, sid = sys.argv[1], sys.argv[2]

    if verb == 'ingest':
        return ingest(sid, sys.argv[3])

    if verb == 'tests':
        return tests(sid, sys.argv[3])

    if verb == 'check':
        budget = int(sys.argv[3]) if len(sys.argv) > 3 else 45
        return check(sid, budget, sys.argv[4:])

    print(__doc__)
    return 2


if __name__ == '__main__':
    sys.exit(main())
