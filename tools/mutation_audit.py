#!/usr/bin/env python3
"""Sensitivity audit: apply each mutants/<ID>_<name>.patch to a scratch copy
of /repo (outside /repo and /verif), run the property's check against it via
VERIF_REPO, expect exit 1 (VIOLATION) within the budget, delete the copy.

usage: tools/mutation_audit.py [ID ...] [--budget S] [--keep-going]
"""

import glob
import json
import os
import shutil
import subprocess
import sys
import tempfile
import time

HERE = os.path.dirname(os.path.dirname(os.path.abspath(__file__)))
PY = '/venv/bin/python'


def check_for(pid):
    man = json.load(open(os.path.join(HERE, 'MANIFEST.json')))

    for c in man['checks']:
        if c['property_id'] == pid:
            return c['quick_cmd'].split()[2]

    return None


def main():
    args = sys.argv[1:]
    budget = '30'
    only = []
    extra = None

    while args:
        a = args.pop(0)

        if a == '--budget':
            budget = args.pop(0)
        elif a == '--patch':
            extra = args.pop(0)
        else:
            only.append(a)

    patches = sorted(glob.glob(os.path.join(HERE, 'mutants', '*.patch')))

    if extra:
        patches = [extra]

    results = []

    for patch in patches:
        base = os.path.basename(patch)
        pid = base.split('_')[0]

        if only and pid not in only and base not in only:
            continue

        check = check_for(pid)

        if check is None:
            print('SKIP', base, '(no check registered)')
            continue

        tmp = tempfile.mkdtemp(prefix='verif_mut_', dir='/tmp')

        try:
            shutil.copytree('/repo/asyncssh', os.path.join(tmp, 'asyncssh'))
            r = subprocess.run(['patch', '-p1', '-s', '-d', tmp, '-i', patch],
                               capture_output=True, text=True)

            if r.returncode != 0:
                print('PATCH-FAILED', base, r.stdout, r.stderr)
                results.append((base, 'patch-failed'))
                continue

            env = dict(os.environ, VERIF_REPO=tmp, VERIF_BUDGET_S=budget,
                       VERIF_NO_EVIDENCE='1')
            t0 = time.time()
            r = subprocess.run([PY, 'check.py', check, '--tier', 'quick'],
                               cwd=HERE, env=env, capture_output=True,
                               text=True)
            dt = time.time() - t0
            verdict = {0: 'MISSED', 1: 'CAUGHT', 2: 'HARNESS'}.get(
                r.returncode, 'rc=%d' % r.returncode)
            line = [l for l in r.stdout.splitlines()
                    if l.startswith('violation:')][:1]
            print('%-8s %-40s %5.1fs %s' % (verdict, base, dt,
                                            line[0][:150] if line else ''))

            if verdict == 'HARNESS':
                print(r.stdout[-1500:], r.stderr[-1500:])

            results.append((base, verdict))
        finally:
            shutil.rmtree(tmp, ignore_errors=True)

    missed = [b for b, v in results if v != 'CAUGHT']
    print('audit: %d/%d caught' % (len(results) - len(missed), len(results)))
    return 1 if missed else 0


if __name__ == '__main__':
    sys.exit(main())
