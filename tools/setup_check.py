"""setup_cmd: verify the interpreter, the repo import path and the
dependencies the simulator needs; builds nothing outside /verif."""

import os
import sys

sys.path.insert(0, os.environ.get('VERIF_REPO', '/repo'))

import asyncssh       # noqa: E402
import cryptography   # noqa: E402

assert os.path.realpath(asyncssh.__file__).startswith(
    os.path.realpath(os.environ.get('VERIF_REPO', '/repo'))), asyncssh.__file__
os.makedirs(os.path.join(os.path.dirname(os.path.dirname(
    os.path.abspath(__file__))), 'evidence'), exist_ok=True)
print('setup ok: asyncssh', asyncssh.__version__, 'cryptography',
      cryptography.__version__, 'python', sys.version.split()[0])
