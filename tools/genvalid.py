#!/usr/bin/env python3
"""Generator/validator agreement: every plan a check's gen_plan() draws must
be accepted by its valid_plan() (the shrinker only keeps candidates that
valid_plan accepts, and reports a disagreement as a harness error).

  genvalid.py [check-module ...] [--n N]      exit 1 if any plan is rejected
"""

import importlib
import json
import os
import sys

HERE = os.path.dirname(os.path.dirname(os.path.abspath(__file__)))
sys.path.insert(0, HERE)

from simkit import runner  # noqa: E402


def main():
    args = sys.argv[1:]
    n = 20000

    if '--n' in args:
        i = args.index('--n')
        n = int(args[i + 1])
        del args[i:i + 2]

    man = json.load(open(os.path.join(HERE, 'MANIFEST.json')))
    mods = args or sorted({c['quick_cmd'].split()[2] for c in man['checks']})
    bad = 0

    for name in mods:
        mod = importlib.import_module('checks.' + name)

        if not hasattr(mod, 'valid_plan'):
            print('%-22s no valid_plan' % name)
            continue

        rejected = []

        for seed in range(1000000, 1000000 + n):
            plan = runner.plan_for(mod, seed)

            if not mod.valid_plan(plan):
                rejected.append(seed)

        print('%-22s %d plans, %d rejected %s' %
              (name, n, len(rejected), rejected[:5]))
        bad += len(rejected)

    return 1 if bad else 0


if __name__ == '__main__':
    sys.exit(main())
