#!/usr/bin/env python3
"""Make a mutant patch: tools/mkmut.py NAME FILE <<< 'old\n===\nnew'
   (exact, unique string replacement in /repo/asyncssh/FILE; writes
   mutants/NAME.patch as a -p1 diff)"""
import difflib, os, sys
name, rel = sys.argv[1], sys.argv[2]
old, new = sys.stdin.read().split('\n===\n')
new = new.rstrip('\n') if not old.endswith('\n') else new
path = '/repo/asyncssh/' + rel
src = open(path).read()
assert src.count(old) == 1, 'old text occurs %d times' % src.count(old)
dst = src.replace(old, new)
diff = difflib.unified_diff(src.splitlines(True), dst.splitlines(True),
                            'a/asyncssh/' + rel, 'b/asyncssh/' + rel)
out = os.path.join(os.path.dirname(os.path.dirname(os.path.abspath(__file__))), 'mutants', name + '.patch')
open(out, 'w').write(''.join(diff))
print('wrote', out)
