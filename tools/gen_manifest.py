#!/usr/bin/env python3
"""Regenerate /verif/MANIFEST.json from the table below and validate it."""

import json
import os
import subprocess
import sys

HERE = os.path.dirname(os.path.dirname(os.path.abspath(__file__)))

PY = '/venv/bin/python'

COMMON_NOTE = ('Trusted base: the simulated event loop admits exactly the '
               'executions asyncio admits (FIFO ready queue, timers by '
               'deadline, I/O observed once per iteration); PyCA/OpenSSL '
               'primitives; the reference models in the check. Sampling, not '
               'proof: a clean batch is evidence for the explored seeds only.')

# id -> (check module, text, note, technique, design_ref)
CHECKS = {
    'C01': ('c01_tamper',
            'Seeded fault injection by an on-path wire over every registered '
            'cipher x MAC x compression: one edit after NEWKEYS at a drawn '
            '(direction, packet, region, kind) out of bit flip, byte drop/'
            'insert, truncate, packet drop/duplicate/swap, splices; oracle on '
            'the receiver: application data equals exactly what packets wholly '
            'before the first altered byte carried, the connection ends with '
            'an integrity/protocol error or stalls and ends with an error '
            'once the link closes, nothing after the close. Cells '
            '(cipher, mac family, compression, kind, region, direction) '
            'reached are reported as abstract states.',
            COMMON_NOTE + ' Packet and padding boundaries come from the '
            'independent passive decoder (umac: no padding region). Same '
            'algorithms in both directions (Pair).',
            'deterministic simulation: on-path tamper fault injection grid, '
            'prefix-exact delivery oracle', 'DESIGN.md 4 C01'),
    'C02': ('c02_wire_format',
            'asyncssh in either role against RefPeer, an independent SSH '
            'implementation written for this task (own negotiation, exchange '
            'hash, RFC 4253 KDF, every PyCA-backed cipher/HMAC incl. etm/-96, '
            'zlib, strict KEX), over drawn (kex, cipher, MAC, compression, '
            'host key) and seeded segmentation down to 1-byte reads in both '
            'directions; every emitted packet must decode under RefPeer\'s own '
            'keys (length, alignment, padding >= 4, MAC/tag at the expected '
            'sequence number), the handshake must complete, payload sequences '
            'seen by each side must equal what the other sent (exactly once, '
            'in order), echoed data lengths 0..32768 intact.',
            COMMON_NOTE + ' RefPeer shares PyCA primitives with asyncssh and '
            'its author with the oracle; umac, RSA kex, curve448 and ML-KEM '
            'hybrids are not implemented by RefPeer.',
            'deterministic simulation: differential run against an '
            'independent reference implementation under seeded segmentation',
            'DESIGN.md 4 C02'),
    'C03': ('c03_kex_binding',
            'Seeded exploration of handshakes between a real client and server '
            'with random preference sub-permutations over every non-GSS kex '
            'method, and an on-path editor that makes one cleartext edit '
            '(bit flip anywhere in either version string or any handshake '
            'message, KEXINIT name-list surgery, first_kex_packet_follows, '
            'host key swap with original/attacker signature, signature/alg '
            'corruption); oracle: reference negotiation over the original '
            'lists, equal session ids and exactly the expected algorithms on '
            'both sides when established, every edit must make connect() fail '
            'before the server reaches authentication, KeyExchangeFailed iff '
            'no common algorithm.',
            COMMON_NOTE + ' Reads conn._session_id and conn._kex.algorithm; '
            'bytes outside H (padding, CR) are not edited; DH public values '
            'are only flipped, not replaced by degenerate group elements.',
            'deterministic simulation: on-path cleartext edit fault '
            'injection + configuration search, reference negotiation model',
            'DESIGN.md 4 C03'),
    'C04': ('c04_host_trust',
            'A real asyncssh client connects by name/alias/address and port '
            'to a real server (or to RefPeer lying about its key / presenting '
            'an altered certificate) with a known_hosts text rendered from a '
            'structured entry list (plain, hashed, wildcard, negated, CIDR, '
            '[host]:port, @cert-authority, @revoked, several matching lines '
            'in drawn order); credentials: listed/other/revoked key, host '
            'certificate by trusted/untrusted/revoked CA, user type, wrong or '
            'no principals, validity window against the simulated wall clock '
            'which may step during the handshake. A reference trust model '
            'over the structured entries decides accept/reject; connect() '
            'must agree, reject with HostKeyNotVerifiable/KeyExchangeFailed, '
            'and the server must see no NEWKEYS/SERVICE_REQUEST/'
            'USERAUTH_REQUEST from a rejecting client.',
            COMMON_NOTE + ' Constructs whose meaning is undocumented (address '
            'literals in pattern lists with a non-default port, bracketed '
            'wildcards, port-form revocation + bare-name trust) are not '
            'generated; outcomes that legitimately depend on when the clock '
            'step lands, or on whether a plain or certificate algorithm is '
            'negotiated, are counted as undecided rather than judged.',
            'deterministic simulation: configuration + credential search with '
            'simulated wall clock steps, reference trust model',
            'DESIGN.md 4 C04'),
    'C05': ('c05_auth',
            'Seeded exploration of USERAUTH message histories sent by an '
            'independent hostile client (RefPeer, holding the session keys) '
            'to a real asyncssh server whose application validators and '
            'begin_auth complete asynchronously as scheduler events: '
            'pipelined/sequential requests mixing methods, users, valid/'
            'invalid credentials and signatures over the wrong session id/'
            'user/service/key; then probes. A reference model over the '
            'received history decides: SUCCESS only if some received request '
            'for the user the server reports carried a valid credential; '
            'channel opens are fatal before and served after success; pty/'
            'forced command/permitopen behaviour matches the option set of '
            'an accepted credential. An honest asyncssh client with password/'
            'key/certificate/kbdint is admitted iff the credential is valid.',
            COMMON_NOTE + ' GSSAPI, security keys, X.509, hostbased (only as '
            'a rejected method) and agent-held keys are not exercised.',
            'deterministic simulation: message-history + validator-completion '
            'interleaving search against a reference authentication model',
            'DESIGN.md 4 C05'),
    'C06': ('c06_phase',
            'asyncssh in either role runs the normal dialogue with RefPeer '
            '(independent implementation holding the keys), which injects one '
            'or two correctly framed messages of drawn type 1..100 and shape '
            '(well-formed, empty, random, truncated, trailing) before a drawn '
            'one of its own messages, with strict KEX advertised or not and '
            'optionally without the sequence reset it advertised. '
            'Differential oracle against the injection-free run of the same '
            'plan: unless the message is in phase for that role, the asyncssh '
            'owner must get connection_lost with an error or the observable '
            'outcome must equal the baseline; under strict KEX anything '
            'injected before the first NEWKEYS must be fatal; no '
            'auth_completed without a request outstanding; a missing sequence '
            'reset must be fatal. Cells (role, position, type, shape, strict) '
            'reached are reported as abstract states.',
            COMMON_NOTE + ' Re-key messages are injected only before the '
            'first NEWKEYS (afterwards they are a legal re-exchange); a '
            'banner after authentication is not treated as covered by the '
            'statement.',
            'deterministic simulation: message-injection fault grid by an '
            'independent peer, differential oracle vs. fault-free run',
            'DESIGN.md 4 C06'),
    'C07': ('c07_channel_data',
            'Seeded exploration of multi-channel write/read/pause programs on '
            'a real asyncssh client/server pair under a scheduler that owns '
            'segmentation, delivery order and reader/writer timing; oracle: '
            'per (channel, datatype) delivered == written, EOF iff sent and '
            'last, nothing after connection_lost, no stall at quiescence.',
            COMMON_NOTE,
            'deterministic simulation: seeded schedule/segmentation search, '
            'stream-equality oracle at quiescence', 'DESIGN.md 4 C07'),
    'C08': ('c08_flow_control',
            'Seeded exploration with a reference window model replayed over '
            'each endpoint\'s ordered packet tap: every DATA an endpoint '
            'sends fits initial+adjusts received so far and the peer max '
            'packet size; a hostile puppet peer overruns the advertised '
            'window while the victim reads, has reading paused, or does not '
            'read (stream): the victim must fail with a protocol error at the '
            'first excess packet and deliver none of it; liveness: at '
            'quiescence no writer or send buffer is pending.',
            COMMON_NOTE + ' The hostile peer reuses asyncssh\'s transport '
            '(raw send_packet) on the attacker side only.',
            'deterministic simulation: schedule search + hostile-peer fault '
            'injection, reference window model over tap history, quiescence '
            'liveness', 'DESIGN.md 4 C08'),
    'C09': ('c09_termination',
            'Seeded exploration of concurrent channel programs (callback '
            'sessions, direct-tcpip, process API, SFTP client, remote-forward '
            'request) by both sides with one fault per run: TCP reset/EOF '
            'after any packet or byte of either direction from the version '
            'exchange on, permanent stall under keepalive, close/abort/'
            'disconnect by either side at a drawn moment, cancellation of a '
            'caller. Quiescence in a simulator decides "never completes": '
            'once the connection is gone every tracked await must be done, '
            'each session log must match made (started)? ... lost with lost '
            'once and last, owners likewise, no channel registered, no task '
            'or transport left.',
            COMMON_NOTE + ' Reads conn._channels and asyncio.all_tasks() to '
            'detect residue.',
            'deterministic simulation: crash-point (connection cut) and '
            'schedule search, quiescence-based hang detection, callback '
            'grammar oracle', 'DESIGN.md 4 C09'),
    'C10': ('c10_hostile_input',
            'asyncssh in either role faces a byte-level hostile peer '
            '(garbage, NULs, few/many/over-long banner and version lines, '
            'cleartext packets with arbitrary length/padding fields, early '
            'close) or RefPeer holding the keys, before or after '
            'authentication, sending messages of any type built from per-type '
            'templates with numeric fields set to 0/1/2^31/2^32-1, string '
            'lengths overrunning the packet, truncation/extension, unknown '
            'channels, and channel open / confirmation with extreme window '
            'and maximum packet size followed by application writes. Oracle: '
            'deterministic spin detection (packets emitted by one callback '
            'bounded by what the application asked to send), output bytes '
            'bounded linearly, quiescence within the step cap, no exception '
            'reaching the loop handler, owner notified at most once and with '
            'an exception, connect()/open never hang.',
            COMMON_NOTE + ' Work is measured in packets, bytes and loop '
            'steps, not CPU time or memory. The offline parsers of the '
            'statement (private key import, DER, sshsig) have no peer, '
            'schedule or fault and are not decided by this technique.',
            'deterministic simulation: hostile-peer input fault injection '
            '(byte level and keyed), deterministic work budget',
            'DESIGN.md 4 C10'),
    'C11': ('c11_rekey',
            'Seeded exploration of busy multi-channel sessions with rekey by '
            'byte threshold (from one packet up) and by virtual-clock time '
            'limit on either or both sides (simultaneous KEXINIT), with a '
            'passive independent decoder on the wire that derives each '
            'epoch\'s keys from the escrowed (K, H) and the original session '
            'id with its own KDF and cipher code; oracles: stream equality '
            'and EOF across rekeys, progress (no endless re-exchange), only '
            '{1-4,7,21,30-49} between own KEXINIT and NEWKEYS, session id '
            'constant, (K, H) fresh per epoch, all wire traffic decodes '
            'under the new keys.',
            COMMON_NOTE + ' (K, H) are read by a tap on send_newkeys; '
            'algorithm change between exchanges is not reachable through the '
            'public API and is not exercised; umac and hybrid-PQ epochs are '
            'not independently decoded.',
            'deterministic simulation: schedule + rekey-threshold search, '
            'virtual clock, passive reference decoder, history oracle over '
            'ordered packet taps', 'DESIGN.md 4 C11'),
    'C12': ('c12_sftp_transfer',
            'A real asyncssh SFTP client (get/put/copy/open+read/write/append '
            'with offsets; block sizes 1..64k, max_requests 1..128, sizes '
            'around block and request-count boundaries) over a real SSH '
            'session against an adversarial SFTP responder backed by an '
            'in-memory reference file model: replies released in '
            'scheduler-chosen order, short reads, the n-th READ/WRITE failing, '
            'source ending before its announced size; plus a fault-free '
            'population against the real SFTPServer on real files (incl. '
            'sparse). Oracle: normal return => destination bytes == source '
            'bytes (or returned bytes == model); injected block error or '
            'early EOF in a non-sparse copy => the call raises; no hang.',
            COMMON_NOTE + ' The adversarial responder speaks SFTP v3 only; '
            'sparse ranges are exercised only against the real server.',
            'deterministic simulation: reply-order schedule search + '
            'responder fault injection, reference file model oracle',
            'DESIGN.md 4 C12'),
    'C13': ('c13_confinement',
            'A real SFTPServer(chroot=root) on real files is driven by a '
            'scripted raw SFTP requester (v3/4/6) with request sequences whose '
            'path byte strings come from a grammar ("..", ".", empty '
            'components, repeated/leading slashes, existing names, absolute '
            'real paths of the root and a sibling, long/non-UTF-8 names) '
            'including symlink/rename/use sequences; a process-wide audit '
            'hook plus wrapped os.stat/lstat/readlink/statvfs/access record '
            'every path touched, resolved at call time, and sentinel files '
            'next to the root are snapshotted. A real SFTP client '
            'get(recurse=True) and a real scp() sink fetch from hostile '
            'sources returning crafted names, duplicate names changing type '
            'and outward symlinks; nothing outside the destination may be '
            'created or changed.',
            COMMON_NOTE + ' One open known finding (symlink with relative '
            'target renamed to a shallower directory) is listed in '
            'known_findings.json and re-demonstrated from its replay file. '
            'Symlinks pre-placed by the administrator are out of scope.',
            'deterministic simulation: hostile request-history / hostile '
            'source search with a filesystem access recorder and '
            'before/after snapshots', 'DESIGN.md 4 C13'),
    'C14': ('c14_sftp_protocol',
            'Three populations: (client) a real SFTP client with 2..12 '
            'concurrent uniquely identifiable requests against the '
            'adversarial responder, which reorders replies and may answer '
            'with an unknown id, twice, or with a wrong/empty reply type: '
            'each caller gets its own reply or an SFTPError, none hangs; '
            '(server) a raw requester pipelines every request type valid/'
            'truncated/extended/unsupported at SFTP v3..6 to the real server '
            'handler over an in-memory SFTPServer raising chosen OSErrors: '
            'exactly one response per id, of a legal type, errno mapped to '
            'the status the version defines, FX_OP_UNSUPPORTED for unknown '
            'types, a sentinel request still served; (attrs) drawn attribute '
            'sets exchanged through stat/readdir at v3..6 arrive unchanged '
            'in the fields that version can carry.',
            COMMON_NOTE + ' The errno->status table and per-version field '
            'sets are written down in the check from the SFTP drafts; uid/'
            'gid<->owner/group, ACLs and extended attributes are not '
            'compared.',
            'deterministic simulation: reply-order schedule search + '
            'responder/requester fault injection, per-request response '
            'accounting', 'DESIGN.md 4 C14'),
    'C16': ('c16_signatures',
            'Scope-limited to what has a peer, a wire or a clock in it: a '
            'real asyncssh server verifies publickey authentication requests '
            'produced by an independent signer (RefPeer + PyCA) for every key '
            'type and signature algorithm RefPeer implements (ed25519, RSA '
            'with SHA-1/256/512, ECDSA P-256/P-384) and OpenSSH user '
            'certificates built field by field, each sent unedited or with '
            'exactly one alteration (a byte of the signature or certificate, '
            'the algorithm name in the signature, the signed user or session '
            'id, the signing key, trailing data), with type, validity window '
            'around the simulated wall clock (which steps between requests), '
            'principals, an unknown critical option and an untrusted CA. '
            'SUCCESS iff unedited and valid at the simulated instant. Host '
            'key signatures and host certificates are decided by C03/C04.',
            COMMON_NOTE + ' NOT decided here: the detached SSHSIG / '
            'allowed-signers clause and direct verify() calls outside a '
            'connection (pure input->output, no schedule, fault or peer); '
            'ed448, sk-* and X.509 keys.',
            'deterministic simulation: credential-alteration fault injection '
            'by an independent signer, simulated wall clock, validity model',
            'DESIGN.md 4 C16'),
    'C19': ('c19_streams',
            'A server-side process writes drawn stdout/stderr streams (bytes '
            'or UTF-8 text over an alphabet containing the separators and '
            'multi-byte characters) in drawn chunks and exits with a status '
            'or signal while the client feeds stdin; windows and packet sizes '
            'from 1 byte up make separators and characters straddle packets. '
            'Each stream is read by a drawn program of read(n)/read()/'
            'readexactly/readline/readuntil (single, multiple, regex) and '
            'every call is compared with a sequential reference reader over '
            'the total stream; run()/communicate()/wait() must return '
            'complete stdout+stderr with the exit status or signal; stdout '
            'redirected to a file / DEVNULL / another process and stdin from '
            'a file must carry all data then EOF; drain() must not hang.',
            COMMON_NOTE + ' Separator sets with one separator a prefix of '
            'another are not generated; a buffer-limit give-up of readuntil/'
            'readline is accepted when the shared receive limit can have '
            'been reached and no unit is lost.',
            'deterministic simulation: schedule/segmentation search with a '
            'sequential reference stream reader as oracle',
            'DESIGN.md 4 C19'),
    'C20': ('c20_forwarding',
            'Four-ended topology on the simulated network (origin app -> '
            'local TCP/UNIX or SOCKS4/4a/5 listener of a real client -> SSH '
            '-> real server -> destination app, and remote forwarding the '
            'other way), 1-3 concurrent forwarded connections whose ends run '
            'drawn programs of writes (also before the channel is confirmed), '
            'half-close, close, abort and reading pauses; permitopen / '
            'no-port-forwarding key options, an application refusing some '
            'destinations or listen requests, optional loss of the SSH '
            'connection at a drawn packet. Oracle: delivered == sent per '
            'direction, EOF propagated with the other direction alive, close '
            'of either end closes both, served iff the permission model '
            'allows, no channel/socket left when both ends are gone, no '
            'listener or relayed socket after the SSH connection ends, no '
            'hang.',
            COMMON_NOTE + ' The simulated TCP answers data sent to a fully '
            'closed socket, and a close with unread data, with a reset (as '
            'Linux does). X11/agent forwarding, TUN/TAP, permitlisten are '
            'not exercised; slow-consumer propagation is exercised but only '
            'checked through delivery/liveness.',
            'deterministic simulation: four-party schedule search with '
            'crash-point (connection cut) injection, stream-equality + '
            'permission-model + residue oracles', 'DESIGN.md 4 C20'),
}

NOT_YET = {}

NOT_APPLICABLE = {
    'C15': 'pure function of (key, format, cipher, passphrase): no schedule, '
           'clock, peer or fault for a simulator to control (DESIGN.md 5)',
    'C17': 'pure function of trust-file text and lookup arguments; its '
           'end-to-end consequences are exercised by C04/C05 (DESIGN.md 5)',
    'C18': 'pure function of configuration text and target; no concurrency, '
           'time or I/O fault in the statement (DESIGN.md 5)',
}


def main():
    props = [json.loads(l) for l in open(os.path.join(HERE,
                                                     'properties.jsonl'))]
    ids = [p['id'] for p in props]
    checks = []

    for pid in ids:
        if pid not in CHECKS:
            continue

        mod, text, note, technique, ref = CHECKS[pid]
        checks.append({
            'property_id': pid,
            'quick_cmd': f'{PY} check.py {mod} --tier quick',
            'thorough_cmd': f'{PY} check.py {mod} --tier thorough',
            'evidence_file': f'/verif/evidence/{pid}.json',
            'replay_cmd_template': f'{PY} check.py {mod} --replay {{path}}',
            'engine': 'simkit',
            'level_claimed': {'category': 'exploration', 'text': text,
                              'design_ref': ref},
            'level_note': note,
            'technique': technique,
        })

    na = []

    for pid in ids:
        if pid in CHECKS:
            continue

        reason = NOT_APPLICABLE.get(pid) or NOT_YET.get(pid) or \
            'check not built yet in this session (planned, see DESIGN.md 4)'
        na.append({'property_id': pid, 'reason': reason})

    manifest = {
        'version': 1,
        'setup_cmd': f'{PY} tools/setup_check.py',
        'hooks': {
            'guard': 'RONF_ASYNCSSH_VERIF',
            'enable': 'no source hooks are needed: every seam is an asyncio/'
                      'module-level interface patched from /verif inside the '
                      'check process (DESIGN.md 2.1); checks import asyncssh '
                      'from /repo\'s working tree via PYTHONPATH',
            'baseline_off_cmd': 'cd /repo && /venv/bin/python -m pytest -ra '
                                '-q -p no:cacheprovider --timeout=900 '
                                '--continue-on-collection-errors',
            'source_commits': [],
            'add_only': True,
        },
        'engines': [{
            'name': 'simkit',
            'path': '/verif/simkit',
            'serves_properties': sorted(CHECKS),
            'kind_free_text': 'deterministic simulation: virtual-time asyncio '
                              'event loop, in-memory network with on-path '
                              'wire, seeded schedule tape, fault injection, '
                              'shrinking, exact replay',
        }],
        'checks': checks,
        'not_applicable': na,
        'notes': 'Exit codes: 0 held, 1 VIOLATION, 2 harness error / '
                 'nondeterminism (never a pass). VERIF_SEED and VERIF_TIER '
                 'are honoured; VERIF_BUDGET_S overrides the batch budget.',
    }

    path = os.path.join(HERE, 'MANIFEST.json')

    with open(path, 'w') as f:
        json.dump(manifest, f, indent=1)
        f.write('\n')

    code = ('import json,jsonschema,sys;'
            'jsonschema.validate(json.load(open(sys.argv[1])),'
            'json.load(open("/root/.vp/MANIFEST.schema.json")));print("manifest ok")')
    subprocess.run(['python3-vt', '-c', code, path], check=True)


if __name__ == '__main__':
    main()
